//! C12 — read-to-write conversion preserves meaning or fails; never silently alters.
//!
//! `c12-dwarf <endian> <sections>`: parse the sections (A), dump their meaning (`crate::dump`),
//! convert with `write::Dwarf::from`, write (B), parse and dump again: the dumps must be equal, or
//! the conversion/write must have failed with an error. Then B is converted and written again (C):
//! B and C must be byte-identical. `c12-frame <eh|debug> <asz> <hex>`: the same for frame tables
//! (unwind rows per FDE). Reply `ok <outcome>`; the Model's reply is `ok *` (it claims "preserved or
//! error" — `Props/C12.lean` — and does not predict which).
use crate::asm;
use crate::dump::{self, R};
use crate::prop::{Ctx, Tier};
use crate::util::{hex, unhex, Rng};
use gimli::write::{self, Address, AttributeValue as WAttr, EndianVec, Sections, Writer};
use gimli::{Encoding, Format, RunTimeEndian};

fn parse_sections(s: &str) -> Option<Vec<(String, Vec<u8>)>> {
    let mut v = Vec::new();
    for part in s.split(';') {
        if part.is_empty() {
            continue;
        }
        let (n, h) = part.split_once('=')?;
        v.push((n.to_string(), unhex(h)?));
    }
    Some(v)
}

fn load<'a>(secs: &'a [(String, Vec<u8>)], e: RunTimeEndian) -> gimli::read::Dwarf<R<'a>> {
    static EMPTY: [u8; 0] = [];
    gimli::read::Dwarf::load(|id| -> Result<R<'a>, ()> {
        let name = id.name().trim_start_matches('.');
        let data: &'a [u8] = secs.iter().find(|(n, _)| n == name).map(|(_, d)| &d[..]).unwrap_or(&EMPTY);
        Ok(R::new(data, e))
    })
    .unwrap()
}

fn sections_to_vec(s: &mut Sections<EndianVec<RunTimeEndian>>) -> Vec<(String, Vec<u8>)> {
    let mut out = Vec::new();
    let _ = s.for_each_mut(|id, w| -> Result<(), ()> {
        out.push((id.name().trim_start_matches('.').to_string(), w.slice().to_vec()));
        Ok(())
    });
    out
}

fn convert_once(secs: &[(String, Vec<u8>)], e: RunTimeEndian) -> Result<Vec<(String, Vec<u8>)>, String> {
    let dwarf = load(secs, e);
    let mut w = write::Dwarf::from(&dwarf, &|a| Some(Address::Constant(a))).map_err(|e| format!("convert:{:?}", e).split('(').next().unwrap().to_string())?;
    let mut sections = Sections::new(EndianVec::new(e));
    w.write(&mut sections).map_err(|e| format!("write:{:?}", e).split('(').next().unwrap().to_string())?;
    Ok(sections_to_vec(&mut sections))
}

// ---- `c12-lineenc <from version> <to version> <32|64> <files> <rows>`: the stepwise line-program API with
// the documented `encoding` override (`write::Dwarf::read_line_program(.., Some(encoding), ..)` +
// `ConvertLineProgram::convert`): a program of one version converted into a program of another.
// `<files>` = `name:dir,...` (dir 0 = the compilation directory, 1/2 = include directories),
// `<rows>` = the file (position in `<files>`) of each row. The meaning of every row — address, line,
// end_sequence, "directory/file" — must be the same before and after, or the conversion must fail.

fn lineenc_rows(dwarf: &gimli::read::Dwarf<R<'_>>) -> Result<Vec<(u64, u64, bool, String)>, String> {
    let header = dwarf.units().next().map_err(|e| format!("{e:?}"))?.ok_or("no unit")?;
    let unit = dwarf.unit(header).map_err(|e| format!("{e:?}"))?;
    let program = unit.line_program.clone().ok_or("no line program")?;
    let mut out = Vec::new();
    let mut rows = program.rows();
    let mut steps = 0;
    while let Some((header, row)) = rows.next_row().map_err(|e| format!("{e:?}"))? {
        steps += 1;
        if steps > 4096 {
            return Err("steps".into());
        }
        let path = if row.end_sequence() {
            String::new()
        } else {
            let file = row.file(header).ok_or("row without a valid file")?;
            let dir = file.directory(header).ok_or("file without a valid directory")?;
            let dir = dwarf.attr_string(&unit, dir).map_err(|e| format!("{e:?}"))?;
            let name = dwarf.attr_string(&unit, file.path_name()).map_err(|e| format!("{e:?}"))?;
            format!("{}/{}", String::from_utf8_lossy(dir.slice()), String::from_utf8_lossy(name.slice()))
        };
        out.push((row.address(), row.line().map(|l| l.get()).unwrap_or(0), row.end_sequence(), path));
    }
    Ok(out)
}

fn lineenc_unit(dwarf: &mut write::Dwarf, enc: Encoding, program: write::LineProgram) -> Result<Vec<(String, Vec<u8>)>, String> {
    let mut unit = write::Unit::new(enc, program);
    let root = unit.root();
    unit.get_mut(root).set(gimli::DW_AT_name, WAttr::String(b"main.c".to_vec()));
    unit.get_mut(root).set(gimli::DW_AT_comp_dir, WAttr::String(b"/comp".to_vec()));
    unit.get_mut(root).set(gimli::DW_AT_stmt_list, WAttr::LineProgramRef);
    dwarf.units.add(unit);
    let mut sections = Sections::new(EndianVec::new(RunTimeEndian::Little));
    dwarf.write(&mut sections).map_err(|e| format!("write:{e:?}"))?;
    Ok(sections_to_vec(&mut sections))
}

fn c12_lineenc(from: u16, to: u16, format: Format, files: &[(String, usize)], row_files: &[usize]) -> String {
    use gimli::write::{LineProgram, LineString};
    let enc = |version| Encoding { format, version, address_size: 8 };
    let mut from_dwarf = write::Dwarf::new();
    let fe = enc(from);
    let mut program = LineProgram::new(
        fe,
        gimli::LineEncoding::default(),
        LineString::new(&b"/comp"[..], fe, &mut from_dwarf.line_strings),
        None,
        LineString::new(&b"main.c"[..], fe, &mut from_dwarf.line_strings),
        None,
    );
    let dirs = [
        program.default_directory(),
        program.add_directory(LineString::new(&b"inc1"[..], fe, &mut from_dwarf.line_strings)),
        program.add_directory(LineString::new(&b"inc2"[..], fe, &mut from_dwarf.line_strings)),
    ];
    let ids: Vec<_> = files.iter().map(|(name, dir)| program.add_file(LineString::new(name.as_bytes(), fe, &mut from_dwarf.line_strings), dirs[*dir % 3], None)).collect();
    program.begin_sequence(Some(Address::Constant(0x1000)));
    for (n, f) in row_files.iter().enumerate() {
        let Some(id) = ids.get(*f) else { return "bad-op".into() };
        program.row().file = *id;
        program.row().line = 10 * (n as u64 + 1);
        program.row().address_offset = 4 * n as u64;
        program.generate_row();
    }
    program.end_sequence(4 * row_files.len() as u64);
    let secs_a = match lineenc_unit(&mut from_dwarf, fe, program) {
        Ok(s) => s,
        Err(x) => return format!("ok input-rejected:{x}"),
    };
    let read_a = load(&secs_a, RunTimeEndian::Little);
    let expected = match lineenc_rows(&read_a) {
        Ok(r) => r,
        Err(x) => return format!("ok input-unreadable:{x}"),
    };
    let from_program = {
        let Ok(Some(h)) = read_a.units().next() else { return "ok input-unreadable:unit".into() };
        let Ok(u) = read_a.unit(h) else { return "ok input-unreadable:unit".into() };
        let Some(p) = u.line_program.clone() else { return "ok input-unreadable:program".into() };
        p
    };
    let mut to_dwarf = write::Dwarf::new();
    let convert = match to_dwarf.read_line_program(&read_a, from_program, Some(enc(to)), None) {
        Ok(c) => c,
        Err(x) => return format!("ok failed:{}", format!("{x:?}").split('(').next().unwrap()),
    };
    let (program, _files) = match convert.convert(&|a| Some(Address::Constant(a))) {
        Ok(p) => p,
        Err(x) => return format!("ok failed:{}", format!("{x:?}").split('(').next().unwrap()),
    };
    let secs_b = match lineenc_unit(&mut to_dwarf, enc(to), program) {
        Ok(s) => s,
        Err(x) => return format!("ok failed:{x}"),
    };
    let read_b = load(&secs_b, RunTimeEndian::Little);
    match lineenc_rows(&read_b) {
        Ok(actual) if actual == expected => format!("ok same {}", expected.len()),
        Ok(actual) => {
            let k = expected.iter().zip(actual.iter()).take_while(|(a, b)| a == b).count();
            format!("ok differs #oracle:line-rows-retargeted row {k}: input {:x?} output {:x?}", expected.get(k), actual.get(k))
        }
        Err(x) => format!("ok differs #oracle:output-unreadable {x}"),
    }
}

fn gen_lineenc(ctx: &Ctx, emit: &mut dyn FnMut(String)) {
    let mut rng = ctx.rng(1299);
    // every version pair x both formats with a fixed small program, then random tables
    for from in 2..=5u16 {
        for to in 2..=5u16 {
            for fmt in ["32", "64"] {
                emit(format!("c12-lineenc {from} {to} {fmt} main.c:0,a.h:1,b.h:2,c.c:0 0,1,2,3"));
                emit(format!("c12-lineenc {from} {to} {fmt} main.c:0,a.h:1,b.h:1,unused.h:0 0,1,2"));
                emit(format!("c12-lineenc {from} {to} {fmt} x.c:2 0,0"));
            }
        }
    }
    for _ in 0..ctx.n(300, 6000) {
        let (from, to) = (2 + rng.below(4), 2 + rng.below(4));
        let nf = 1 + rng.below(5) as usize;
        let files: Vec<String> = (0..nf).map(|i| format!("{}:{}", if i == 0 && rng.chance(1, 2) { "main.c".to_string() } else { format!("f{i}.c") }, rng.below(3))).collect();
        let rows: Vec<String> = (0..(1 + rng.below(6))).map(|_| rng.below(nf as u64).to_string()).collect();
        emit(format!("c12-lineenc {from} {to} {} {} {}", rng.pick(&["32", "64"]), files.join(","), rows.join(",")));
    }
}

fn first_diff(a: &[String], b: &[String]) -> String {
    for (i, (x, y)) in a.iter().zip(b.iter()).enumerate() {
        if x != y {
            return format!("line {i}: input `{x}` output `{y}`");
        }
    }
    format!("length {} vs {}: {}", a.len(), b.len(), if a.len() > b.len() { format!("input has extra `{}`", a[b.len()]) } else { format!("output has extra `{}`", b[a.len()]) })
}

fn c12_dwarf(e: RunTimeEndian, secs_a: &[(String, Vec<u8>)]) -> String {
    let da = match dump::dump(&load(secs_a, e)) {
        Ok(d) => d,
        // the reader rejects the input: outside the property's quantifier (well-formed DWARF accepted by the reader)
        Err(_) => return "ok input-rejected".into(),
    };
    if da.iter().any(|l| l.contains("row E") || l.contains("bad-expr")) {
        return "ok input-rejected".into();
    }
    let secs_b = match convert_once(secs_a, e) {
        Ok(b) => b,
        Err(err) => return format!("ok failed:{err}"),
    };
    let db = match dump::dump(&load(&secs_b, e)) {
        Ok(d) => d,
        Err(err) => return format!("ok converted #oracle:output-unreadable {err}"),
    };
    if da != db {
        return format!("ok converted #oracle:meaning-changed {}", first_diff(&da, &db));
    }
    // idempotence: converting the output again reproduces it
    match convert_once(&secs_b, e) {
        Ok(secs_c) => {
            let key = |v: &Vec<(String, Vec<u8>)>| {
                let mut m: Vec<(String, Vec<u8>)> = v.iter().filter(|(_, d)| !d.is_empty()).cloned().collect();
                m.sort();
                m
            };
            if key(&secs_b) != key(&secs_c) {
                let dc = dump::dump(&load(&secs_c, e)).unwrap_or_default();
                if dc != db {
                    return format!("ok converted #oracle:not-idempotent {}", first_diff(&db, &dc));
                }
                let which: Vec<String> = key(&secs_b).iter().zip(key(&secs_c).iter()).filter(|(x, y)| x != y).map(|(x, _)| x.0.clone()).collect();
                return format!("ok converted #oracle:not-idempotent-bytes sections {}", which.join(","));
            }
        }
        Err(err) => return format!("ok converted #oracle:reconvert-failed {err}"),
    }
    format!("ok converted units={} lines={}", da.iter().filter(|l| l.starts_with("unit")).count(), da.len())
}

fn c12_frame(e: RunTimeEndian, eh: bool, asz: u8, bytes: &[u8]) -> String {
    use gimli::read::{BaseAddresses, UnwindSection};
    let conv = &|a| Some(Address::Constant(a));
    // the converter uses eh_frame base 0
    let bases = BaseAddresses::default().set_eh_frame(0);
    macro_rules! go {
        ($rd:ty, $wr:ident, $write:ident) => {{
            let mut s = <$rd>::new(bytes, e);
            s.set_address_size(asz);
            let da = match dump::dump_frames(&s, &bases) {
                Ok(d) => d,
                Err(_) => return "ok input-rejected".into(),
            };
            if let Some(l) = da.iter().find(|l| l.contains(" !")) {
                let why = l.split(' ').find(|t| t.starts_with('!')).unwrap_or("?");
                return format!("ok input-rejected:{why}");
            }
            let table = match write::FrameTable::from(&s, conv) {
                Ok(t) => t,
                Err(err) => return format!("ok failed:convert:{}", format!("{err:?}").split('(').next().unwrap()),
            };
            let mut w = write::$wr::from(EndianVec::new(e));
            if let Err(err) = table.$write(&mut w) {
                return format!("ok failed:write:{}", format!("{err:?}").split('(').next().unwrap());
            }
            let out = w.slice().to_vec();
            let mut s2 = <$rd>::new(&out, e);
            s2.set_address_size(asz);
            let db = match dump::dump_frames(&s2, &bases) {
                Ok(d) => d,
                Err(err) => return format!("ok converted #oracle:output-unreadable {err}"),
            };
            if da != db {
                return format!("ok converted #oracle:meaning-changed {}", first_diff(&da, &db));
            }
            // idempotence
            match write::FrameTable::from(&s2, conv) {
                Ok(t2) => {
                    let mut w2 = write::$wr::from(EndianVec::new(e));
                    if t2.$write(&mut w2).is_err() || w2.slice() != &out[..] {
                        return "ok converted #oracle:not-idempotent frame bytes differ".into();
                    }
                }
                Err(err) => return format!("ok converted #oracle:reconvert-failed {err:?}"),
            }
            format!("ok converted fdes={}", da.len())
        }};
    }
    if eh {
        go!(gimli::read::EhFrame<R<'_>>, EhFrame, write_eh_frame)
    } else {
        go!(gimli::read::DebugFrame<R<'_>>, DebugFrame, write_debug_frame)
    }
}

pub fn handle(op: &str, a: &[&str]) -> Option<String> {
    let endian = |s: &str| match s {
        "le" => Some(RunTimeEndian::Little),
        "be" => Some(RunTimeEndian::Big),
        _ => None,
    };
    match (op, a) {
        ("c12-dwarf", [e, secs]) => Some(c12_dwarf(endian(e)?, &parse_sections(secs)?)),
        // debugging aid: both dumps on stderr
        ("c12-show", [e, secs]) => {
            let e = endian(e)?;
            let secs_a = parse_sections(secs)?;
            eprintln!("--- input\n{}", dump::dump(&load(&secs_a, e)).map(|d| d.join("\n")).unwrap_or_else(|x| x));
            match convert_once(&secs_a, e) {
                Ok(b) => eprintln!("--- output\n{}", dump::dump(&load(&b, e)).map(|d| d.join("\n")).unwrap_or_else(|x| x)),
                Err(x) => eprintln!("--- convert failed: {x}"),
            }
            Some("ok shown".into())
        }
        ("c12-lineaddr", [ins]) => c12_lineaddr(ins),
        ("c12-cfiarith", [caf, daf, delta, f]) => Some(c12_cfiarith(caf.parse().ok()?, daf.parse().ok()?, delta.parse().ok()?, f.parse().ok()?)),
        ("c12-frame", [e, kind, asz, h]) => Some(c12_frame(endian(e)?, *kind == "eh", asz.parse().ok()?, &unhex(h)?)),
        // expression component (c12/expr.rs); the map argument is for the Model only
        ("c12-expr", [e, asz, fmt, ver, x, _map, addr]) => Some(c12_expr(endian(e)?, ex_encoding(asz, fmt, ver)?, &unhex(x)?, &unhex(addr)?)),
        ("c12-lineenc", [from, to, fmt, files, rows]) => {
            let (from, to): (u16, u16) = (from.parse().ok()?, to.parse().ok()?);
            if !(2..=5).contains(&from) || !(2..=5).contains(&to) {
                return Some("bad-op".into());
            }
            let format = match *fmt { "32" => Format::Dwarf32, "64" => Format::Dwarf64, _ => return None };
            let files: Vec<(String, usize)> = files.split(',').map(|f| f.split_once(':').and_then(|(n, d)| Some((n.to_string(), d.parse().ok()?)))).collect::<Option<_>>()?;
            let rows: Vec<usize> = rows.split(',').map(|r| r.parse().ok()).collect::<Option<_>>()?;
            Some(c12_lineenc(from, to, format, &files, &rows))
        }
        ("c12-vtexpr", [e, asz, fmt, ver, x, _map, addr]) => {
            let (e, enc, x, addr) = (endian(e)?, ex_encoding(asz, fmt, ver)?, unhex(x)?, unhex(addr)?);
            EX_AT.with(|c| c.set(gimli::DW_AT_vtable_elem_location));
            let reply = c12_expr(e, enc, &x, &addr);
            EX_AT.with(|c| c.set(gimli::DW_AT_location));
            Some(reply)
        }
        // debugging aid: the map argument of c12-expr for an encoding
        ("c12-exprmap", [e, asz, fmt, ver]) => Some(format!("ok {}", ex_map(ex_encoding(asz, fmt, ver)?, endian(e)?)?)),
        _ => None,
    }
}

// ------------------------------------------------------------------------------------------------
// correspondence of the two Lean models of Props/C12.lean with the code

/// addresses (and end flags) of the rows gimli reads from the only unit's line program
fn line_row_addrs(secs: &[(String, Vec<u8>)]) -> Result<String, String> {
    let dwarf = load(secs, RunTimeEndian::Little);
    let mut units = dwarf.units();
    let header = units.next().map_err(|e| format!("{e:?}"))?.ok_or("no unit")?;
    let unit = dwarf.unit(header).map_err(|e| format!("{e:?}"))?;
    let mut out = Vec::new();
    if let Some(program) = unit.line_program.clone() {
        let mut rows = program.rows();
        while let Some((_, row)) = rows.next_row().map_err(|e| format!("{e:?}"))? {
            out.push(format!("{}{}", row.address(), if row.end_sequence() { "e" } else { "" }));
        }
    }
    Ok(if out.is_empty() { "-".into() } else { out.join(",") })
}

/// `c12-lineaddr s8192,r,a4,r,e`: see lean/Gimli/Drv/C12.lean
fn c12_lineaddr(ins: &str) -> Option<String> {
    let prog = assemble_ins(ins)?;
    c12_lineaddr_prog(&prog)
}

/// `s<addr>` set_address, `a<d>` advance_pc, `r` copy, `e` end_sequence
pub fn assemble_ins(ins: &str) -> Option<Vec<u8>> {
    let mut prog = Vec::new();
    for t in ins.split(',') {
        match t.as_bytes().first()? {
            b'r' => prog.push(1),
            b'e' => prog.extend_from_slice(&[0, 1, 1]),
            b's' => {
                let a: u64 = t[1..].parse().ok()?;
                prog.extend_from_slice(&[0, 9, 2]);
                prog.extend_from_slice(&a.to_le_bytes());
            }
            b'a' => {
                let d: u64 = t[1..].parse().ok()?;
                prog.push(2);
                prog.extend(asm::uleb(d));
            }
            _ => return None,
        }
    }
    Some(prog)
}

fn c12_lineaddr_prog(prog: &[u8]) -> Option<String> {
    let secs = assembled_line_unit_with(-5, 14, prog);
    let rin = match line_row_addrs(&secs) {
        Ok(r) => r,
        Err(e) => return Some(format!("ok input-rejected:{e}")),
    };
    Some(match convert_once(&secs, RunTimeEndian::Little) {
        Err(_) => format!("ok in={rin} failed"),
        Ok(b) => match line_row_addrs(&b) {
            Ok(rout) if rout == rin => format!("ok in={rin} out={rout}"),
            Ok(rout) => format!("ok in={rin} out={rout} #oracle:rows-differ the converted program reads back with other rows"),
            Err(e) => format!("ok in={rin} out=? #oracle:output-unreadable {e}"),
        },
    })
}

/// `c12-cfiarith <caf> <daf> <delta> <f>`: see lean/Gimli/Drv/C12.lean
fn c12_cfiarith(caf: u64, daf: i64, delta: u32, f: i64) -> String {
    use gimli::read::UnwindSection;
    let e = RunTimeEndian::Little;
    let mut bytes = asm::debug_frame_cie(8, caf, daf, 16, &[0x0c, 7, 8]);
    let mut insns = vec![0x04u8];
    insns.extend_from_slice(&delta.to_le_bytes());
    insns.push(0x11);
    insns.push(3);
    insns.extend(asm::sleb(f));
    bytes.extend(asm::debug_frame_fde(8, 0, 0x1000, 0x100, &insns));
    let name = |d: String| -> String {
        let d = d.strip_prefix("Write(").unwrap_or(&d).to_string();
        d.split('(').next().unwrap().trim_end_matches(')').to_string()
    };
    let mut s = gimli::read::DebugFrame::new(&bytes, e);
    s.set_address_size(8);
    let table = match write::FrameTable::from(&s, &|a| Some(Address::Constant(a))) {
        Ok(t) => t,
        Err(err) => return format!("ok conv:{}", name(format!("{err:?}"))),
    };
    let mut w = write::DebugFrame::from(EndianVec::new(e));
    if let Err(err) = table.write_debug_frame(&mut w) {
        return format!("ok write:{}", name(format!("{err:?}")));
    }
    let out = w.slice().to_vec();
    let mut s2 = gimli::read::DebugFrame::new(&out, e);
    s2.set_address_size(8);
    let bases = gimli::read::BaseAddresses::default();
    let mut entries = s2.entries(&bases);
    let (mut d, mut fo) = (0u64, None);
    loop {
        match entries.next() {
            Ok(Some(gimli::read::CieOrFde::Fde(p))) => {
                let Ok(fde) = p.parse(|_, bases, o| s2.cie_from_offset(bases, o)) else { return "ok reread-failed #oracle:output-unreadable fde".into() };
                let mut it = fde.instructions(&s2, &bases);
                loop {
                    match it.next() {
                        Ok(Some(gimli::read::CallFrameInstruction::AdvanceLoc { delta })) => d += delta as u64,
                        Ok(Some(gimli::read::CallFrameInstruction::Offset { factored_offset, .. })) => fo = Some(factored_offset as i128),
                        Ok(Some(gimli::read::CallFrameInstruction::OffsetExtendedSf { factored_offset, .. })) => fo = Some(factored_offset as i128),
                        Ok(Some(_)) => {}
                        Ok(None) => break,
                        Err(err) => return format!("ok reread-failed #oracle:output-unreadable {err:?}"),
                    }
                }
            }
            Ok(Some(_)) => {}
            Ok(None) => break,
            Err(err) => return format!("ok reread-failed #oracle:output-unreadable {err:?}"),
        }
    }
    let Some(fo) = fo else { return "ok reread-failed #oracle:output-unreadable no offset instruction".into() };
    // direct oracle: the written operands mean what the read operands meant
    let mut reply = format!("ok d={d} f={fo}");
    if fo * daf as i128 != f as i128 * daf as i128 {
        reply += " #oracle:offset-changed data offset differs after conversion";
    }
    if d as u128 * caf as u128 != delta as u128 * caf as u128 {
        reply += " #oracle:advance-changed code offset differs after conversion";
    }
    reply
}

// ------------------------------------------------------------------------------------------------
// generation: rich well-formed DWARF through gimli's own writer, plus hand-assembled inputs

fn secs_line(secs: &[(String, Vec<u8>)]) -> String {
    secs.iter().filter(|(_, d)| !d.is_empty()).map(|(n, d)| format!("{n}={}", hex(d))).collect::<Vec<_>>().join(";")
}

fn rand_expr(rng: &mut Rng, unit_entries: &[write::UnitEntryId], base_types: &[write::UnitEntryId], version: u16, depth: u32) -> write::Expression {
    let mut ex = write::Expression::new();
    let n = 1 + rng.below(6);
    let mut pending: Vec<usize> = Vec::new();
    for _ in 0..n {
        match rng.below(22) {
            0 => ex.op_constu(rng.boundary_u64()),
            1 => ex.op_consts(rng.boundary_i64()),
            2 => ex.op_breg(gimli::Register(rng.below(40) as u16), rng.boundary_i64()),
            3 => ex.op_fbreg(rng.boundary_i64()),
            4 => ex.op_reg(gimli::Register(rng.below(40) as u16)),
            5 => ex.op_plus_uconst(rng.boundary_u64()),
            6 => ex.op_pick(rng.below(4) as u8),
            7 => ex.op_deref(),
            8 => ex.op_deref_size(*rng.pick(&[1u8, 2, 4, 8])),
            9 => ex.op(*rng.pick(&[gimli::DW_OP_plus, gimli::DW_OP_minus, gimli::DW_OP_and, gimli::DW_OP_dup, gimli::DW_OP_swap, gimli::DW_OP_lt, gimli::DW_OP_shl, gimli::DW_OP_stack_value, gimli::DW_OP_nop, gimli::DW_OP_call_frame_cfa])),
            10 => pending.push(ex.op_skip()),
            11 => pending.push(ex.op_bra()),
            12 => ex.op_addr(Address::Constant(rng.boundary_u64() & 0xffff_ffff)),
            13 => ex.op_piece(rng.below(64)),
            14 => ex.op_bit_piece(rng.below(128), rng.below(64)),
            15 => ex.op_implicit_value(rng.bytes_below(6).into_boxed_slice()),
            16 if !unit_entries.is_empty() => ex.op_call(*rng.pick(unit_entries)),
            17 if !base_types.is_empty() && version >= 4 => ex.op_convert(if rng.chance(1, 3) { None } else { Some(*rng.pick(base_types)) }),
            18 if !base_types.is_empty() && version >= 4 => ex.op_regval_type(gimli::Register(rng.below(33) as u16), *rng.pick(base_types)),
            19 if !base_types.is_empty() && version >= 4 => ex.op_deref_type(*rng.pick(&[1u8, 4, 8]), *rng.pick(base_types)),
            20 if depth < 2 && version >= 4 => {
                let inner = rand_expr(rng, unit_entries, base_types, version, depth + 1);
                ex.op_entry_value(inner)
            }
            21 if !unit_entries.is_empty() && version >= 4 => ex.op_gnu_parameter_ref(*rng.pick(unit_entries)),
            _ => ex.op_constu(rng.below(40)),
        }
    }
    // resolve branch targets to existing operation indices (forward, backward or the end)
    let end = ex.next_index();
    for p in pending {
        let mut t = rng.below(end as u64 + 1) as usize;
        if t == p {
            // a branch may not target itself (documented precondition of set_target)
            t = end;
        }
        ex.set_target(p, t);
    }
    ex
}

pub fn rich_dwarf(rng: &mut Rng, version: u16, format: Format, address_size: u8, e: RunTimeEndian) -> Option<Vec<(String, Vec<u8>)>> {
    let encoding = Encoding { version, format, address_size };
    let amask: u64 = if address_size == 8 { u64::MAX } else { (1u64 << (8 * address_size)) - 1 };
    let mut dwarf = write::Dwarf::new();
    let nunits = 1 + rng.below(2) as usize;
    let mut unit_ids = Vec::new();
    let mut all_entries: Vec<Vec<write::UnitEntryId>> = Vec::new();
    for ui in 0..nunits {
        // line program
        let v5 = version >= 5;
        let mk = |s: &[u8], dwarf: &mut write::Dwarf, rng: &mut Rng| -> write::LineString {
            if v5 && rng.chance(1, 2) {
                write::LineString::LineStringRef(dwarf.line_strings.add(s))
            } else if rng.chance(1, 3) {
                write::LineString::StringRef(dwarf.strings.add(s))
            } else {
                write::LineString::String(s.to_vec())
            }
        };
        let line_encoding = gimli::LineEncoding {
            minimum_instruction_length: *rng.pick(&[1u8, 1, 2, 4]),
            maximum_operations_per_instruction: 1,
            default_is_stmt: rng.chance(1, 2),
            line_base: *rng.pick(&[-5i8, -3, -1, 0, -10, -128]),
            line_range: *rng.pick(&[14u8, 12, 4, 1, 10, 242, 255, 129]),
        };
        if line_encoding.line_base as i16 + line_encoding.line_range as i16 <= 0 {
            return None;
        }
        let comp_dir = mk(b"/comp/dir", &mut dwarf, rng);
        let comp_name = mk(format!("u{ui}.c").as_bytes(), &mut dwarf, rng);
        let mut lp = write::LineProgram::new(encoding, line_encoding, comp_dir, None, comp_name, None);
        let d0 = lp.default_directory();
        let d1 = lp.add_directory(mk(b"inc", &mut dwarf, rng));
        let mut files = Vec::new();
        for i in 0..(1 + rng.below(3)) {
            let name = mk(format!("f{i}.h").as_bytes(), &mut dwarf, rng);
            files.push(lp.add_file(name, if rng.chance(1, 2) { d0 } else { d1 }, None));
        }
        let mil = line_encoding.minimum_instruction_length as u64;
        for s in 0..rng.below(3) {
            let base = (0x1000 * (s + 1 + 4 * ui as u64)) & amask;
            lp.begin_sequence(Some(Address::Constant(base)));
            let mut off = 0u64;
            let mut line = 1 + rng.below(50);
            for _ in 0..rng.below(8) {
                lp.row().address_offset = off;
                lp.row().file = *rng.pick(&files);
                lp.row().line = line;
                lp.row().column = rng.below(100);
                lp.row().is_statement = rng.chance(1, 2);
                lp.row().basic_block = rng.chance(1, 5);
                lp.row().prologue_end = rng.chance(1, 5);
                lp.row().epilogue_begin = rng.chance(1, 5);
                lp.row().isa = rng.below(3);
                lp.row().discriminator = if rng.chance(1, 4) { rng.below(9) } else { 0 };
                lp.generate_row();
                off += mil * *rng.pick(&[0u64, 1, 2, 3, 17, 40, 300]);
                line = (line as i64 + *rng.pick(&[0i64, 1, 2, -1, -4, 13, 200, -30])).max(0) as u64;
            }
            lp.end_sequence(off + mil * rng.below(5));
        }
        let uid = dwarf.units.add(write::Unit::new(encoding, lp));
        unit_ids.push(uid);
        let unit = dwarf.units.get_mut(uid);
        let root = unit.root();
        let name = dwarf.strings.add(format!("unit{ui}").as_bytes());
        unit.get_mut(root).set(gimli::DW_AT_name, WAttr::StringRef(name));
        unit.get_mut(root).set(gimli::DW_AT_language, WAttr::Language(gimli::DW_LANG_C11));
        unit.get_mut(root).set(gimli::DW_AT_stmt_list, WAttr::LineProgramRef);
        let low = (0x1000 * (1 + 4 * ui as u64)) & amask;
        unit.get_mut(root).set(gimli::DW_AT_low_pc, WAttr::Address(Address::Constant(low)));
        if rng.chance(1, 2) {
            unit.get_mut(root).set(gimli::DW_AT_high_pc, WAttr::Udata(rng.below(0x4000)));
        }
        // entries
        let mut entries = vec![root];
        let mut base_types = Vec::new();
        for i in 0..(2 + rng.below(8)) {
            let parent = if rng.chance(1, 2) { root } else { *rng.pick(&entries) };
            let tag = *rng.pick(&[gimli::DW_TAG_subprogram, gimli::DW_TAG_variable, gimli::DW_TAG_base_type, gimli::DW_TAG_lexical_block, gimli::DW_TAG_structure_type, gimli::DW_TAG_member, gimli::DW_TAG_formal_parameter, gimli::DW_TAG_namespace]);
            let c = unit.add(parent, tag);
            if tag == gimli::DW_TAG_base_type && parent == root {
                base_types.push(c);
                unit.get_mut(c).set(gimli::DW_AT_byte_size, WAttr::Data1(*rng.pick(&[1u8, 2, 4, 8])));
                unit.get_mut(c).set(gimli::DW_AT_encoding, WAttr::Encoding(*rng.pick(&[gimli::DW_ATE_signed, gimli::DW_ATE_unsigned, gimli::DW_ATE_float])));
            }
            entries.push(c);
            let _ = i;
        }
        for &c in entries.iter().skip(1) {
            for _ in 0..rng.below(5) {
                match rng.below(16) {
                    0 => unit.get_mut(c).set(gimli::DW_AT_name, WAttr::String(format!("n{}", rng.below(100)).into_bytes())),
                    1 => {
                        let s = dwarf.strings.add(format!("s{}", rng.below(5)).as_bytes());
                        unit.get_mut(c).set(gimli::DW_AT_linkage_name, WAttr::StringRef(s));
                    }
                    2 => unit.get_mut(c).set(gimli::DW_AT_decl_line, WAttr::Udata(rng.boundary_u64())),
                    3 => unit.get_mut(c).set(gimli::DW_AT_const_value, WAttr::Sdata(rng.boundary_i64())),
                    4 => unit.get_mut(c).set(gimli::DW_AT_decl_column, WAttr::Data2(rng.next() as u16)),
                    5 => unit.get_mut(c).set(gimli::DW_AT_data_bit_offset, WAttr::Data4(rng.next() as u32)),
                    6 => unit.get_mut(c).set(gimli::DW_AT_upper_bound, WAttr::Data8(rng.boundary_u64())),
                    7 => unit.get_mut(c).set(gimli::DW_AT_external, if rng.chance(1, 2) && version >= 4 { WAttr::FlagPresent } else { WAttr::Flag(rng.chance(1, 2)) }),
                    8 => unit.get_mut(c).set(gimli::DW_AT_type, WAttr::UnitRef(*rng.pick(&entries))),
                    9 => unit.get_mut(c).set(gimli::DW_AT_decl_file, WAttr::FileIndex(Some(*rng.pick(&files)))),
                    10 => unit.get_mut(c).set(gimli::DW_AT_low_pc, WAttr::Address(Address::Constant(rng.boundary_u64() & amask))),
                    11 => {
                        let ex = rand_expr(rng, &entries, &base_types, version, 0);
                        unit.get_mut(c).set(gimli::DW_AT_frame_base, WAttr::Exprloc(ex));
                    }
                    12 => {
                        let mut list = Vec::new();
                        let has_base = rng.chance(1, 2);
                        if has_base {
                            list.push(write::Range::BaseAddress { address: Address::Constant(0x8000 & amask) });
                        }
                        for _ in 0..(1 + rng.below(3)) {
                            let b = rng.below(0x1000);
                            let l = 1 + rng.below(0x100);
                            list.push(match rng.below(3) {
                                0 if has_base => write::Range::OffsetPair { begin: b, end: b + l },
                                1 => write::Range::StartLength { begin: Address::Constant(b + 0x10), length: l },
                                _ if !has_base || version >= 5 => write::Range::StartEnd { begin: Address::Constant(b + 0x10), end: Address::Constant(b + 0x10 + l) },
                                _ => write::Range::OffsetPair { begin: b, end: b + l },
                            });
                        }
                        let id = unit.ranges.add(write::RangeList(list));
                        unit.get_mut(c).set(gimli::DW_AT_ranges, WAttr::RangeListRef(id));
                    }
                    13 => {
                        let mut list = Vec::new();
                        let has_base = rng.chance(1, 2);
                        if has_base {
                            list.push(write::Location::BaseAddress { address: Address::Constant(0x8000 & amask) });
                        }
                        for _ in 0..(1 + rng.below(3)) {
                            let b = rng.below(0x1000);
                            let l = 1 + rng.below(0x100);
                            let data = rand_expr(rng, &entries, &base_types, version, 0);
                            list.push(match rng.below(4) {
                                0 if has_base => write::Location::OffsetPair { begin: b, end: b + l, data },
                                1 => write::Location::StartLength { begin: Address::Constant(b + 0x10), length: l, data },
                                2 if version >= 5 => write::Location::DefaultLocation { data },
                                _ if !has_base || version >= 5 => write::Location::StartEnd { begin: Address::Constant(b + 0x10), end: Address::Constant(b + 0x10 + l), data },
                                _ => write::Location::OffsetPair { begin: b, end: b + l, data },
                            });
                        }
                        let id = unit.locations.add(write::LocationList(list));
                        unit.get_mut(c).set(gimli::DW_AT_location, WAttr::LocationListRef(id));
                    }
                    14 => unit.get_mut(c).set(gimli::DW_AT_accessibility, WAttr::Accessibility(gimli::DW_ACCESS_private)),
                    _ => unit.get_mut(c).set(gimli::DW_AT_description, WAttr::Block(rng.bytes_below(5))),
                }
            }
        }
        all_entries.push(entries);
    }
    // cross-unit references
    if nunits > 1 {
        for ui in 0..nunits {
            let other = (ui + 1) % nunits;
            let target = *rng.pick(&all_entries[other]);
            let src = *rng.pick(&all_entries[ui]);
            let unit = dwarf.units.get_mut(unit_ids[ui]);
            if src != unit.root() {
                unit.get_mut(src).set(gimli::DW_AT_abstract_origin, WAttr::DebugInfoRef(write::DebugInfoRef::Entry(unit_ids[other], target)));
            }
        }
    }
    let mut sections = Sections::new(EndianVec::new(e));
    dwarf.write(&mut sections).ok()?;
    Some(sections_to_vec(&mut sections))
}

/// hand-assembled v4 `.debug_line` + a minimal unit pointing at it: opcodes the writer never emits
fn assembled_line_unit(rng: &mut Rng, prog: &[u8]) -> Vec<(String, Vec<u8>)> {
    // (line_base, line_range): mostly the usual one; gcc's (-10, 242), the extremes, and two that
    // the writer cannot represent (no special opcode for a line advance of 0 / positive base),
    // which the conversion must refuse with an error
    let (lb, lr) = *rng.pick(&[(-5i8, 14u8), (-5, 14), (-5, 14), (-10, 242), (-128, 255), (-3, 12), (0, 1), (-1, 4), (-100, 250), (-5, 3), (1, 10)]);
    assembled_line_unit_with(lb, lr, prog)
}

/// a one-unit DWARF 4 image (8-byte addresses) whose only child DIE is a DW_TAG_variable with the
/// given bytes as DW_AT_location (DW_FORM_exprloc)
pub fn assembled_expr_unit(expr: &[u8]) -> Vec<(String, Vec<u8>)> {
    // abbrev 1: compile_unit, children, name(string); abbrev 2: variable, no children, location(exprloc)
    let abbrev = vec![1u8, 0x11, 1, 0x03, 0x08, 0, 0, 2, 0x34, 0, 0x02, 0x18, 0, 0, 0];
    let mut die = vec![1u8];
    die.extend_from_slice(b"a.c\0");
    die.push(2);
    die.extend(asm::uleb(expr.len() as u64));
    die.extend_from_slice(expr);
    die.push(0);
    let mut ubody = vec![4u8, 0, 0, 0, 0, 0, 8];
    ubody.extend(die);
    let mut info = (ubody.len() as u32).to_le_bytes().to_vec();
    info.extend(ubody);
    vec![("debug_abbrev".into(), abbrev), ("debug_info".into(), info)]
}

/// `depth` nested DW_OP_entry_value operations around DW_OP_reg0
pub fn nested_entry_value(depth: usize) -> Vec<u8> {
    let mut e = vec![0x50u8];
    for _ in 0..depth {
        let mut o = vec![0xa3u8];
        o.extend(asm::uleb(e.len() as u64));
        o.extend(e);
        e = o;
    }
    e
}

/// a one-unit DWARF 4 image whose line program header has the given line_base / line_range
pub fn assembled_line_unit_with(lb: i8, lr: u8, prog: &[u8]) -> Vec<(String, Vec<u8>)> {
    assembled_line_unit_mil(1, lb, lr, prog)
}

/// the same with a given minimum_instruction_length
pub fn assembled_line_unit_mil(mil: u8, lb: i8, lr: u8, prog: &[u8]) -> Vec<(String, Vec<u8>)> {
    let mut hdr_rest = vec![mil, 1, 1, lb as u8, lr, 13];
    hdr_rest.extend_from_slice(&[0, 1, 1, 1, 1, 0, 0, 0, 1, 0, 0, 1]);
    hdr_rest.extend_from_slice(b"inc\0");
    hdr_rest.push(0);
    hdr_rest.extend_from_slice(b"a.c\0\0\0\0");
    hdr_rest.extend_from_slice(b"b.h\0\x01\0\0");
    hdr_rest.push(0);
    let mut body = vec![4u8, 0];
    body.extend_from_slice(&(hdr_rest.len() as u32).to_le_bytes());
    body.extend(hdr_rest);
    body.extend_from_slice(prog);
    let mut line = (body.len() as u32).to_le_bytes().to_vec();
    line.extend(body);
    // abbrev: CU with name(string), comp_dir(string), stmt_list(sec_offset), low_pc(addr)
    let abbrev = vec![1u8, 0x11, 0, 0x03, 0x08, 0x1b, 0x08, 0x10, 0x17, 0x11, 0x01, 0, 0, 0];
    let mut die = vec![1u8];
    die.extend_from_slice(b"a.c\0");
    die.extend_from_slice(b"/comp\0");
    die.extend_from_slice(&0u32.to_le_bytes());
    die.extend_from_slice(&0x1000u64.to_le_bytes());
    let mut ubody = vec![4u8, 0, 0, 0, 0, 0, 8];
    ubody.extend(die);
    let mut info = (ubody.len() as u32).to_le_bytes().to_vec();
    info.extend(ubody);
    vec![("debug_abbrev".into(), abbrev), ("debug_info".into(), info), ("debug_line".into(), line)]
}

fn rand_line_prog(rng: &mut Rng) -> Vec<u8> {
    let mut p = Vec::new();
    let nseq = 1 + rng.below(2);
    for s in 0..nseq {
        // how the sequence gets its start address: its own DW_LNE_set_address (usual), a tombstone
        // (all-ones: what linkers write for discarded code), or none at all (address register 0)
        match rng.below(8) {
            0 => {
                p.extend_from_slice(&[0, 9, 2]);
                p.extend_from_slice(&u64::MAX.to_le_bytes());
            }
            1 => {}
            _ => {
                p.extend_from_slice(&[0, 9, 2]);
                p.extend_from_slice(&(0x2000u64 * (s + 1)).to_le_bytes());
            }
        }
        for _ in 0..rng.below(10) {
            match rng.below(14) {
                0 => p.push(1),                                         // copy
                1 => {
                    p.push(2);
                    p.extend(asm::uleb(rng.below(200)));
                } // advance_pc
                2 => {
                    p.push(3);
                    p.extend(asm::sleb(rng.below(40) as i64 - 10));
                } // advance_line
                3 => {
                    p.push(4);
                    p.extend(asm::uleb(1 + rng.below(2)));
                } // set_file
                4 => {
                    p.push(5);
                    p.extend(asm::uleb(rng.below(80)));
                } // set_column
                5 => p.push(6),                                         // negate_stmt
                6 => p.push(7),                                         // set_basic_block
                7 => p.push(8),                                         // const_add_pc
                8 => {
                    p.push(9);
                    p.extend_from_slice(&(rng.below(300) as u16).to_le_bytes());
                } // fixed_advance_pc
                9 => p.push(10),                                        // prologue_end
                10 => p.push(11),                                       // epilogue_begin
                11 => {
                    p.push(12);
                    p.extend(asm::uleb(rng.below(4)));
                } // set_isa
                12 => {
                    // extended: set_discriminator
                    let v = asm::uleb(rng.below(9));
                    p.push(0);
                    p.extend(asm::uleb(1 + v.len() as u64));
                    p.push(4);
                    p.extend(v);
                }
                _ => p.push(13 + rng.below(243) as u8), // special opcode
            }
            if std::env::var("C12_NO_SETADDR").is_err() && rng.chance(1, 12) {
                // mid-sequence set_address (forward)
                p.extend_from_slice(&[0, 9, 2]);
                p.extend_from_slice(&(0x2000u64 * (s + 1) + 0x800 + rng.below(0x100)).to_le_bytes());
                p.push(1);
            }
            if rng.chance(1, 25) {
                // mid-sequence set_address that the reader treats as a tombstone without being
                // the all-ones value: a lower address than the current one (what gold leaves for
                // discarded code), 0, or all-ones - 1; the rows up to the next set_address are
                // dropped by the reader and the conversion must not bring them back
                p.extend_from_slice(&[0, 9, 2]);
                let a = match rng.below(4) {
                    0 => 0,
                    1 => u64::MAX - 1,
                    2 => 0x2000u64 * (s + 1) - 0x10,
                    _ => 0x2000u64 * (s + 1) + rng.below(0x40),
                };
                p.extend_from_slice(&a.to_le_bytes());
                p.push(1);
                if rng.chance(1, 2) {
                    p.extend_from_slice(&[2, 4, 1]);
                }
                if rng.chance(1, 2) {
                    // and a later valid address
                    p.extend_from_slice(&[0, 9, 2]);
                    p.extend_from_slice(&(0x2000u64 * (s + 1) + 0x1000 + rng.below(0x100)).to_le_bytes());
                    p.push(1);
                }
            }
        }
        p.push(1);
        if rng.chance(1, 6) {
            // the end address given by DW_LNE_set_address directly before DW_LNE_end_sequence
            p.extend_from_slice(&[0, 9, 2]);
            p.extend_from_slice(&(0x2000u64 * (s + 1) + 0x1800).to_le_bytes());
        } else {
            p.extend_from_slice(&[2, 4]);
        }
        p.extend_from_slice(&[0, 1, 1]); // end_sequence
    }
    p
}

fn rand_cfi_program(rng: &mut Rng, in_cie: bool) -> Vec<u8> {
    use asm::*;
    let mut p = Vec::new();
    let mut depth = 0u32; // remember_state nesting (mostly valid programs; a few invalid ones on purpose)
    let mut cfa_expr = false;
    for _ in 0..rng.below(8) {
        let mut k = rng.below(18);
        if k == 10 && depth == 0 && !rng.chance(1, 10) {
            k = 9;
        }
        if k == 9 && depth >= 2 {
            k = 6;
        }
        if k == 12 && cfa_expr && !rng.chance(1, 10) {
            k = 11;
        }
        match k {
            0 if !in_cie => p.push(CFA_ADVANCE_LOC | (1 + rng.below(62) as u8)),
            1 if !in_cie => {
                p.push(CFA_ADVANCE_LOC1);
                p.push(rng.next() as u8);
            }
            2 if !in_cie => {
                p.push(0x03);
                p.extend_from_slice(&(rng.next() as u16).to_le_bytes());
            }
            3 => {
                p.push(CFA_OFFSET | rng.below(32) as u8);
                p.extend(uleb(rng.below(40)));
            }
            4 => {
                p.push(0x05);
                p.extend(uleb(rng.below(100)));
                p.extend(uleb((if rng.chance(3, 4) { rng.below(4096) } else { rng.boundary_u64() >> rng.below(64) })));
            } // offset_extended
            5 if !in_cie => p.push(CFA_RESTORE | rng.below(32) as u8),
            6 => {
                p.push(CFA_UNDEFINED);
                p.extend(uleb(rng.below(40)));
            }
            7 => {
                p.push(CFA_SAME_VALUE);
                p.extend(uleb(rng.below(40)));
            }
            8 => {
                p.push(CFA_REGISTER);
                p.extend(uleb(rng.below(40)));
                p.extend(uleb(rng.below(40)));
            }
            9 => {
                depth += 1;
                p.push(CFA_REMEMBER_STATE)
            }
            10 if !in_cie => {
                depth = depth.saturating_sub(1);
                p.push(CFA_RESTORE_STATE)
            }
            11 => {
                cfa_expr = false;
                p.push(CFA_DEF_CFA);
                p.extend(uleb(rng.below(32)));
                p.extend(uleb((if rng.chance(3, 4) { rng.below(4096) } else { rng.boundary_u64() >> rng.below(64) })));
            }
            12 => {
                p.push(CFA_DEF_CFA_OFFSET);
                p.extend(uleb((if rng.chance(3, 4) { rng.below(4096) } else { rng.boundary_u64() >> rng.below(64) })));
            }
            13 => {
                p.push(0x12);
                p.extend(uleb(rng.below(32)));
                p.extend(sleb((if rng.chance(3, 4) { rng.below(512) as i64 - 256 } else { rng.boundary_i64() >> rng.below(64) })));
            } // def_cfa_sf
            14 => {
                p.push(0x11);
                p.extend(uleb(rng.below(32)));
                p.extend(sleb((if rng.chance(3, 4) { rng.below(512) as i64 - 256 } else { rng.boundary_i64() >> rng.below(64) })));
            } // offset_extended_sf
            15 => {
                p.push(0x14);
                p.extend(uleb(rng.below(32)));
                p.extend(uleb(rng.below(100)));
            } // val_offset
            16 => {
                p.push(CFA_GNU_ARGS_SIZE);
                p.extend(uleb((if rng.chance(3, 4) { rng.below(4096) } else { rng.boundary_u64() >> rng.below(64) })));
            }
            _ => {
                cfa_expr = true;
                p.push(CFA_DEF_CFA_EXPRESSION);
                let e = vec![0x77u8, 8, 0x06];
                p.extend(uleb(e.len() as u64));
                p.extend(e);
            }
        }
    }
    p
}

pub fn gen(ctx: &Ctx, emit: &mut dyn FnMut(String)) {
    // component generators kept in their own files
    crate::prop::c12lists::gen(ctx, emit);
    crate::prop::c12unit::gen(ctx, emit);
    crate::prop::c12cfi::gen(ctx, emit);
    crate::prop::c12line::gen(ctx, emit);
    let mut rng = ctx.rng(12);
    // Model/ConvLine.lean vs the code: every instruction list over a small alphabet up to a
    // length (exhaustive), then random longer ones with several sequences
    {
        let alpha: Vec<String> = ["r", "e", "a0", "a8", "s4096", "s4100", "s16", "s0", "s18446744073709551615", "s18446744073709551614"].iter().map(|s| s.to_string()).collect();
        let maxlen = if ctx.tier == Tier::Thorough { 5 } else { 4 };
        let mut level: Vec<Vec<usize>> = vec![vec![]];
        for _ in 0..maxlen {
            let mut next = Vec::new();
            for p in &level {
                for i in 0..alpha.len() {
                    let mut q = p.clone();
                    q.push(i);
                    next.push(q);
                }
            }
            for p in &next {
                // end every program with an end_sequence (an open one is a conversion error and is
                // included as well, one in four)
                let mut v: Vec<&str> = p.iter().map(|&i| alpha[i].as_str()).collect();
                if p.iter().sum::<usize>() % 4 != 0 {
                    v.push("e");
                }
                emit(format!("c12-lineaddr {}", v.join(",")));
            }
            level = next;
        }
        for _ in 0..ctx.n(3000, 60000) {
            let mut v: Vec<String> = Vec::new();
            let mut base = 0x1000 * (1 + rng.below(4));
            for _ in 0..(1 + rng.below(14)) {
                match rng.below(12) {
                    0..=3 => v.push("r".into()),
                    4..=5 => v.push(format!("a{}", rng.below(40))),
                    6 => {
                        base += rng.below(0x100);
                        v.push(format!("s{base}"));
                    }
                    7 => v.push(format!("s{}", base - rng.below(0x40).min(base))),
                    8 => v.push(format!("s{}", *rng.pick(&[0u64, 1, u64::MAX, u64::MAX - 1]))),
                    9 => {
                        v.push("e".into());
                        base = 0x1000 * (1 + rng.below(4));
                    }
                    10 => v.push(format!("s{}", base + 0x800 + rng.below(0x100))),
                    _ => v.push("r".into()),
                }
            }
            if !rng.chance(1, 8) {
                v.push("e".into());
            }
            emit(format!("c12-lineaddr {}", v.join(",")));
        }
    }
    // Model/ConvCfi.lean vs the code: alignment factors x operands at every boundary
    {
        let cafs = [0u64, 1, 2, 4, 7, 255, 256, 1 << 32];
        let dafs = [0i64, 1, -1, 2, -4, -8, 8, 127, -128, 128, -129, i64::MIN, i64::MAX];
        let deltas = [0u32, 1, 3, 0x3f, 0x40, 0xff, 0x100, 0xffff, 0x10000, 0x0101_0101, 0x7fff_ffff, 0x8000_0000, u32::MAX];
        let fs = [0i64, 1, -1, 2, -2, 16, -16, 0x7fff_ffff, -0x8000_0000, 0x8000_0000, -0x8000_0001, 0x0fff_ffff, -0x1000_0000, 1 << 40, i64::MAX, i64::MIN, (i32::MAX / 127) as i64, (i32::MAX / 127 + 1) as i64, (i32::MIN / 128) as i64, (i32::MIN / -128) as i64];
        for &caf in &cafs {
            for &daf in &dafs {
                for &delta in &deltas {
                    for &f in &fs {
                        if ctx.tier == Tier::Thorough || rng.chance(1, 4) {
                            emit(format!("c12-cfiarith {caf} {daf} {delta} {f}"));
                        }
                    }
                }
            }
        }
        for _ in 0..ctx.n(2000, 40000) {
            let caf = if rng.chance(1, 8) { rng.below(600) } else { 1 + rng.below(16) };
            let daf = if rng.chance(1, 8) { rng.below(400) as i64 - 200 } else { rng.below(33) as i64 - 16 };
            let delta = if rng.chance(1, 4) { rng.next() as u32 } else { rng.below(0x20000) as u32 };
            let f = match rng.below(4) {
                0 => rng.next() as i64,
                1 => (rng.next() as i32) as i64,
                _ => rng.below(4096) as i64 - 2048,
            };
            emit(format!("c12-cfiarith {caf} {daf} {delta} {f}"));
        }
    }
    let rounds = ctx.n(40, 1500);
    for _ in 0..rounds {
        for version in [2u16, 3, 4, 5] {
            let format = if rng.chance(1, 3) { Format::Dwarf64 } else { Format::Dwarf32 };
            let asz = *rng.pick(&[4u8, 8, 8]);
            let e = if rng.chance(1, 4) { RunTimeEndian::Big } else { RunTimeEndian::Little };
            if let Some(secs) = rich_dwarf(&mut rng, version, format, asz, e) {
                emit(format!("c12-dwarf {} {}", if e == RunTimeEndian::Little { "le" } else { "be" }, secs_line(&secs)));
            }
        }
    }
    // exhaustive structural enumeration of line programs: every sequence is (start kind) x (body
    // kind) x (end kind); all programs of 1 and 2 sequences (quick) / up to 3 (thorough)
    {
        let kinds: Vec<(u8, u8, u8)> = (0..3u8).flat_map(|a| (0..5u8).flat_map(move |b| (0..2u8).map(move |c| (a, b, c)))).collect();
        let seq_bytes = |k: (u8, u8, u8), idx: u64| -> Vec<u8> {
            let mut p = Vec::new();
            let base = 0x3000u64 * (idx + 1);
            let set = |p: &mut Vec<u8>, a: u64| {
                p.extend_from_slice(&[0, 9, 2]);
                p.extend_from_slice(&a.to_le_bytes());
            };
            match k.0 {
                0 => set(&mut p, base),
                1 => set(&mut p, u64::MAX),
                _ => {}
            }
            match k.1 {
                0 => {}
                1 => p.extend_from_slice(&[1]),
                2 => p.extend_from_slice(&[0x21, 2, 3, 0x4b]),
                3 => {
                    p.extend_from_slice(&[0x21, 2, 3]);
                    set(&mut p, base + 0x800);
                    p.extend_from_slice(&[0x21, 2, 5, 0x4b]);
                }
                _ => {
                    p.extend_from_slice(&[0x21]);
                    set(&mut p, u64::MAX);
                    p.extend_from_slice(&[0x21, 2, 5]);
                    set(&mut p, base + 0x900);
                    p.extend_from_slice(&[0x4b]);
                }
            }
            match k.2 {
                0 => p.extend_from_slice(&[2, 4]),
                _ => set(&mut p, base + 0x1000),
            }
            p.extend_from_slice(&[0, 1, 1]);
            p
        };
        let mut progs: Vec<Vec<(u8, u8, u8)>> = Vec::new();
        for &a in &kinds {
            progs.push(vec![a]);
            for &b in &kinds {
                progs.push(vec![a, b]);
                if ctx.tier == Tier::Thorough {
                    for &c in &kinds {
                        progs.push(vec![a, b, c]);
                    }
                }
            }
        }
        for pr in progs {
            let mut bytes = Vec::new();
            for (i, k) in pr.iter().enumerate() {
                bytes.extend(seq_bytes(*k, i as u64));
            }
            let secs = assembled_line_unit(&mut rng, &bytes);
            emit(format!("c12-dwarf le {}", secs_line(&secs)));
        }
    }
    for _ in 0..ctx.n(300, 10_000) {
        let prog = rand_line_prog(&mut rng);
        let secs = assembled_line_unit(&mut rng, &prog);
        emit(format!("c12-dwarf le {}", secs_line(&secs)));
    }
    for _ in 0..ctx.n(400, 20_000) {
        let caf = if rng.chance(1, 8) { *rng.pick(&[255u64, 256, 0, 1 << 32]) } else { *rng.pick(&[1u64, 1, 2, 4]) };
        let daf = if rng.chance(1, 8) { *rng.pick(&[127i64, -128, 128, 0, -129]) } else { *rng.pick(&[-8i64, -4, 1, -1, 8]) };
        let mut sec = Vec::new();
        for k in 0..(1 + rng.below(3)) {
            let off = sec.len() as u32;
            let mut ci = vec![asm::CFA_DEF_CFA, 7, 8];
            ci.extend(rand_cfi_program(&mut rng, true));
            sec.extend(asm::debug_frame_cie(8, caf, daf, 16, &ci));
            for j in 0..(1 + rng.below(2)) {
                let fi = rand_cfi_program(&mut rng, false);
                sec.extend(asm::debug_frame_fde(8, off, 0x1000 * (1 + k * 4 + j), 0x200 + rng.below(0x10000), &fi));
            }
        }
        emit(format!("c12-frame le debug 8 {}", hex(&sec)));
    }
    // frames produced by gimli's writer, both kinds
    if let Some(s) = crate::prop::c01::write_seeds(4, Format::Dwarf32, 8, RunTimeEndian::Little, &mut rng) {
        emit(format!("c12-frame le debug 8 {}", hex(&s.debug_frame)));
        emit(format!("c12-frame le eh 8 {}", hex(&s.eh_frame)));
    }
    let _ = Tier::Quick;
    // expression component: Model/ConvOp.lean vs Expression::from (c12/expr.rs)
    ex_gen(ctx, emit);
    gen_lineenc(ctx, emit);
}

include!("c12/expr.rs");
