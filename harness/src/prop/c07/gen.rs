// Case generators for C07 (included into c07.rs).

fn put_fixed(out: &mut Vec<u8>, big: bool, n: usize, v: u64) {
    let le = v.to_le_bytes();
    if big {
        out.extend(le[..n].iter().rev());
    } else {
        out.extend(&le[..n]);
    }
}

struct EncCfg {
    e: &'static str,
    big: bool,
    asz: u8,
    fmt: &'static str,
    ver: u16,
}

fn pick_enc(rng: &mut Rng) -> EncCfg {
    let big = rng.chance(1, 2);
    let asz = if rng.chance(1, 20) { *rng.pick(&[0u8, 3, 5, 6, 7]) } else { *rng.pick(&[1u8, 2, 4, 8]) };
    EncCfg { e: if big { "be" } else { "le" }, big, asz, fmt: if rng.chance(1, 2) { "32" } else { "64" }, ver: *rng.pick(&[2u16, 3, 4, 5]) }
}

fn enc_str(c: &EncCfg) -> String {
    format!("{} {} {} {}", c.e, c.asz, c.fmt, c.ver)
}

fn small_or_boundary(rng: &mut Rng) -> u64 {
    match rng.below(4) {
        0 => rng.below(8),
        1 => rng.below(300),
        _ => rng.boundary_u64(),
    }
}

/// operands for opcode `opc`, well formed w.r.t. its DWARF signature (values boundary biased)
fn gen_operands(rng: &mut Rng, c: &EncCfg, opc: u8, out: &mut Vec<u8>, depth: u32) {
    let word = if c.fmt == "32" { 4 } else { 8 };
    let addr = if matches!(c.asz, 1 | 2 | 4 | 8) { c.asz as usize } else { 4 };
    if opc == 0xed {
        let k = if rng.chance(1, 10) { rng.next() as u8 } else { rng.below(4) as u8 };
        out.push(k);
        if k == 3 {
            put_fixed(out, c.big, 4, rng.boundary_u64());
        } else {
            out.extend(uleb(if rng.chance(1, 5) { rng.boundary_u64() as u128 } else { (rng.boundary_u64() & 0xffff_ffff) as u128 }));
        }
        return;
    }
    let Some(sig) = signature(opc) else { return };
    for o in sig {
        match o {
            Opd::U(n) | Opd::S(n) => {
                let v = if n == 1 && matches!(opc, 0x94 | 0x95 | 0xa6 | 0xa7 | 0xf6) { rng.below(10) } else if opc == 0x15 { rng.below(5) } else { rng.boundary_u64() };
                put_fixed(out, c.big, n, v)
            }
            Opd::Addr => put_fixed(out, c.big, addr, rng.boundary_u64()),
            Opd::Off => put_fixed(out, c.big, word, small_or_boundary(rng)),
            Opd::RefAddr => put_fixed(out, c.big, if c.ver == 2 { addr } else { word }, small_or_boundary(rng)),
            Opd::Uleb => {
                let v = if opc == 0x93 && rng.chance(1, 4) { *rng.pick(&[(1u64 << 61) - 1, 1 << 61, u64::MAX, 1 << 60]) } else { small_or_boundary(rng) };
                out.extend(uleb(v as u128))
            }
            Opd::Reg => out.extend(uleb(match rng.below(6) {
                0 => 0xffff,
                1 => 0x10000,
                2 => rng.boundary_u64() as u128,
                _ => rng.below(40) as u128,
            })),
            Opd::Sleb => out.extend(sleb(if rng.chance(1, 2) { rng.below(64) as i128 - 32 } else { rng.boundary_i64() as i128 })),
            Opd::BlockUleb => {
                let body = if matches!(opc, 0xa3 | 0xf3) && depth < 2 { gen_program(rng, c, 3, depth + 1) } else { rng.bytes_below(6) };
                out.extend(uleb(body.len() as u128));
                out.extend(body);
            }
            Opd::Block1 => {
                let n = *rng.pick(&[0usize, 1, 2, 4, 8, 8, 4, 3, 9]);
                out.push(n as u8);
                out.extend(rng.bytes(n));
            }
        }
    }
}

const ARITH: &[u8] = &[0x12, 0x13, 0x14, 0x16, 0x17, 0x19, 0x1a, 0x1b, 0x1c, 0x1d, 0x1e, 0x1f, 0x20, 0x21, 0x22, 0x24, 0x25, 0x26, 0x27, 0x29, 0x2a, 0x2b, 0x2c, 0x2d, 0x2e, 0x96];
const CONSTS: &[u8] = &[0x08, 0x09, 0x0a, 0x0b, 0x0c, 0x0d, 0x0e, 0x0f, 0x10, 0x11, 0x30, 0x31, 0x32, 0x38, 0x4f, 0x23, 0x15];
const REQUESTS: &[u8] = &[0x03, 0x06, 0x18, 0x70, 0x77, 0x91, 0x92, 0x94, 0x95, 0x98, 0x99, 0x9a, 0x9b, 0x9c, 0xa1, 0xa2, 0xa3, 0xa4, 0xa5, 0xa6, 0xa7, 0xa8, 0xa9, 0xe0, 0xed, 0xfa, 0xf3, 0xf4, 0xf5, 0xf6, 0xf7, 0xf9, 0xfb, 0xfc, 0x97];
const LOCS: &[u8] = &[0x50, 0x6f, 0x90, 0x93, 0x9d, 0x9e, 0x9f, 0xa0, 0xf2];

/// a program of about `n` instructions: constants, arithmetic, branches to instruction
/// boundaries (mostly), requests, location descriptions
fn gen_program(rng: &mut Rng, c: &EncCfg, n: usize, depth: u32) -> Vec<u8> {
    let count = 1 + rng.below(n as u64 + 1) as usize;
    let mut insns: Vec<Vec<u8>> = Vec::new();
    let profile = rng.below(4); // 0: integer only, 1: +requests, 2: +locations, 3: everything incl. any byte
    for _ in 0..count {
        let opc = match rng.below(20) {
            0..=6 => *rng.pick(CONSTS),
            7..=12 => *rng.pick(ARITH),
            13 | 14 => *rng.pick(&[0x28u8, 0x2f]),
            15 | 16 if profile >= 1 => *rng.pick(REQUESTS),
            17 | 18 if profile >= 2 => *rng.pick(LOCS),
            19 if profile == 3 => rng.next() as u8,
            _ => *rng.pick(CONSTS),
        };
        let mut i = vec![opc];
        if opc == 0x28 || opc == 0x2f {
            i.extend([0, 0]); // patched below
        } else {
            gen_operands(rng, c, opc, &mut i, depth);
        }
        insns.push(i);
    }
    // instruction boundaries
    let mut starts = vec![0usize];
    for i in &insns {
        starts.push(starts.last().unwrap() + i.len());
    }
    let total = *starts.last().unwrap();
    for (k, i) in insns.iter_mut().enumerate() {
        if (i[0] == 0x28 || i[0] == 0x2f) && i.len() == 3 {
            let after = starts[k + 1] as i64;
            let target: i64 = match rng.below(10) {
                0..=5 => starts[rng.below(starts.len() as u64) as usize] as i64,
                6 => total as i64,
                7 => total as i64 + 1,
                8 => -1,
                _ => rng.below(total as u64 + 3) as i64 - 1,
            };
            let off = (target - after) as i16;
            let mut b = vec![];
            put_fixed(&mut b, c.big, 2, off as u16 as u64);
            i[1] = b[0];
            i[2] = b[1];
        }
    }
    insns.concat()
}

fn gen_value(rng: &mut Rng) -> String {
    let (name, t) = *rng.pick(TYPES);
    let pat = match t {
        ValueType::F32 => *rng.pick(&[0u64, 0x3f80_0000, 0xbf80_0000, 0x7f80_0000, 0xff80_0000, 0x7fc0_0000, 0x4f00_0000, 0xcf00_0000, 0x5f80_0000, 0x42f6_e979, 0x8000_0000, 1]),
        ValueType::F64 => *rng.pick(&[
            0u64,
            0x3ff0_0000_0000_0000,
            0xbff0_0000_0000_0000,
            0x7ff0_0000_0000_0000,
            0xfff0_0000_0000_0000,
            0x7ff8_0000_0000_0000,
            0x43e0_0000_0000_0000,
            0xc3e0_0000_0000_0000,
            0x43f0_0000_0000_0000,
            0x405e_dd2f_1a9f_be77,
            0x8000_0000_0000_0000,
            1,
            0x40e0_0000_0000_0000,
            0xc060_2000_0000_0000,
        ]),
        _ => rng.boundary_u64(),
    };
    let _ = name;
    render_value(&value_of(t, pat)).replace("nan", &format!("{}", pat))
}

fn gen_script(rng: &mut Rng, c: &EncCfg, n: usize) -> String {
    if n == 0 {
        return "-".into();
    }
    (0..n)
        .map(|_| {
            let bytes = match rng.below(4) {
                0 => vec![],
                _ => gen_program(rng, c, 3, 1),
            };
            format!("{}/{}", gen_value(rng), hex(&bytes))
        })
        .collect::<Vec<_>>()
        .join(",")
}

fn has_branch(bs: &[u8]) -> bool {
    bs.iter().any(|b| *b == 0x28 || *b == 0x2f)
}

fn opt_str(o: Option<u64>) -> String {
    o.map(|x| x.to_string()).unwrap_or_else(|| "-".into())
}

fn gen_all(ctx: &Ctx, emit: &mut dyn FnMut(String)) {
    let mut rng = ctx.rng(7);
    let thorough = ctx.tier == Tier::Thorough;

    // ---- (a) decoding: every opcode byte x encodings, well-formed / truncated / random operands
    let per_opcode = ctx.n(24, 300);
    for opc in 0..=255u8 {
        for k in 0..per_opcode {
            let c = pick_enc(&mut rng);
            let mut bs = vec![opc];
            match k % 6 {
                0..=2 => {
                    gen_operands(&mut rng, &c, opc, &mut bs, 0);
                    bs.extend(rng.bytes_below(3));
                }
                3 => {
                    gen_operands(&mut rng, &c, opc, &mut bs, 0);
                    let cut = rng.below(bs.len() as u64 + 1) as usize;
                    bs.truncate(cut.max(1));
                }
                4 => bs.extend(rng.bytes_below(14)),
                _ => {
                    // LEB128 boundary operands: long / overflowing numbers
                    let n = *rng.pick(&[9usize, 10, 11]);
                    bs.extend(std::iter::repeat(*rng.pick(&[0x80u8, 0xff])).take(n - 1));
                    bs.push(*rng.pick(&[0u8, 1, 2, 0x7f, 0x40, 0x3f]));
                    bs.extend(rng.bytes_below(12));
                }
            }
            emit(format!("op-parse {} {}", enc_str(&c), hex(&bs)));
        }
        // the four address sizes x both formats x v2/v5 with fixed generous operands
        for asz in [1u8, 2, 4, 8] {
            for fmt in ["32", "64"] {
                for ver in [2u16, 5] {
                    let e = if (opc as usize + asz as usize) % 2 == 0 { "le" } else { "be" };
                    emit(format!("op-parse {e} {asz} {fmt} {ver} {:02x}0102030405060708090a0b0c0d0e0f10", opc));
                }
            }
        }
    }
    emit("op-parse le 4 32 4 -".into());
    for _ in 0..ctx.n(1500, 40_000) {
        let c = pick_enc(&mut rng);
        let mut p = gen_program(&mut rng, &c, 8, 0);
        if rng.chance(1, 5) && !p.is_empty() {
            let cut = rng.below(p.len() as u64) as usize;
            p.truncate(cut);
        }
        emit(format!("op-iter {} {}", enc_str(&c), hex(&p)));
    }

    // ---- (b) value operations
    for o in UNARY.iter().chain(BINARY.iter()) {
        for t in ["i8", "u8", "generic"] {
            emit(format!("blk-val {o} {t} 255"));
        }
    }
    const MASKS: &[u64] = &[0xff, 0xffff, 0xffff_ffff, u64::MAX];
    for _ in 0..ctx.n(12_000, 400_000) {
        let mask = if rng.chance(1, 12) { rng.boundary_u64() } else { *rng.pick(MASKS) };
        let a = gen_value(&mut rng);
        match rng.below(10) {
            0 => emit(format!("val-op {} {mask} {a}", rng.pick(UNARY))),
            1 => emit(format!("val-op to_u64 {mask} {a}")),
            2 => emit(format!("val-op {} {mask} {a} {}", rng.pick(&["convert", "reinterpret"]), rng.pick(TYPES).0)),
            3..=6 => {
                // same type operands (the interesting arithmetic)
                let t = a.split(':').next().unwrap().to_string();
                let mut b = gen_value(&mut rng);
                for _ in 0..40 {
                    if b.starts_with(&format!("{t}:")) {
                        break;
                    }
                    b = gen_value(&mut rng);
                }
                emit(format!("val-op {} {mask} {a} {b}", rng.pick(BINARY)));
            }
            7 => {
                // shifts by small / boundary counts of any integral type
                let cnt = match rng.below(3) {
                    0 => format!("generic:{}", rng.below(70)),
                    1 => format!("{}:{}", rng.pick(&["u8", "i8", "u16", "i32", "u64", "i64"]), rng.below(70)),
                    _ => gen_value(&mut rng),
                };
                emit(format!("val-op {} {mask} {a} {cnt}", rng.pick(&["shl", "shr", "shra"])));
            }
            _ => emit(format!("val-op {} {mask} {a} {}", rng.pick(BINARY), gen_value(&mut rng))),
        }
    }
    for (tn, _) in TYPES {
        for (un, _) in TYPES {
            for _ in 0..ctx.n(6, 60) {
                let mut a = gen_value(&mut rng);
                for _ in 0..60 {
                    if a.starts_with(&format!("{tn}:")) {
                        break;
                    }
                    a = gen_value(&mut rng);
                }
                let mask = *rng.pick(MASKS);
                emit(format!("val-op convert {mask} {a} {un}"));
                emit(format!("val-op reinterpret {mask} {a} {un}"));
            }
        }
        for mask in [0u64, 1, 0xff, 0xffff, 0xff_ffff, 0xffff_ffff, 1 << 63, u64::MAX, 0x8000] {
            emit(format!("val-bit-size {mask} {tn}"));
        }
        for e in ["le", "be"] {
            for len in [0usize, 1, 2, 3, 4, 7, 8, 9] {
                emit(format!("val-parse {e} {tn} {}", hex(&rng.bytes(len))));
            }
        }
        for _ in 0..8 {
            emit(format!("val-from-u64 {tn} {}", rng.boundary_u64()));
        }
    }
    for ate in 0..=9u64 {
        for size in [0u64, 1, 2, 3, 4, 8, 16] {
            emit(format!("val-type-enc {ate} {size}"));
        }
    }

    // ---- (c) evaluation
    // exhaustive: every program of 1..3 (quick) / 1..4 (thorough) alphabet symbols
    let nsym = alphabet(4).len();
    for asz in [1u8, 2, 4, 8] {
        let e = if asz == 2 { "be" } else { "le" };
        for len in 1..=(if thorough { 4 } else { 3 }) {
            for first in 0..nsym {
                emit(format!("expr-blk {e} {asz} heap 16 {len} {first}"));
            }
        }
        // small storage and a tight iteration limit on the same space (length 2..3)
        for first in 0..nsym {
            emit(format!("expr-blk {e} {asz} s2e1p1 3 3 {first}"));
            emit(format!("expr-blk {e} {asz} s3e1p1 2 2 {first}"));
        }
    }
    // the alphabet programs of length <= 2 individually (localises a digest mismatch)
    for asz in [1u8, 4, 8] {
        let alpha = alphabet(asz);
        for x in &alpha {
            emit(format!("expr-eval le {asz} 32 4 heap - 4660 16 {} -", hex(x)));
            for y in &alpha {
                let mut p = x.clone();
                p.extend(y);
                emit(format!("expr-eval le {asz} 32 4 heap - 4660 16 {} -", hex(&p)));
            }
        }
    }
    // iteration limits 0..N on looping / straight programs, heap and small storage
    let loop_progs: Vec<Vec<u8>> = vec![
        vec![0x2f, 0xfd, 0xff],
        vec![0x35, 0x31, 0x1c, 0x12, 0x28, 0xfa, 0xff],                 // lit5; L: lit1 minus dup bra L
        vec![0x35, 0x31, 0x1c, 0x12, 0x28, 0xfa, 0xff, 0x9f],           // … stack_value
        vec![0x50, 0x93, 0x04, 0x51, 0x93, 0x04],                       // reg0 piece4 reg1 piece4
        vec![0x31, 0x9f, 0x93, 0x01, 0x32, 0x9f, 0x93, 0x01, 0x93, 0x02], // stack_value pieces + empty piece
        vec![0x30, 0x31, 0x32, 0x33, 0x34, 0x22, 0x22, 0x22, 0x22],
        vec![0x96, 0x96, 0x96, 0x50],
        vec![0x31, 0x28, 0x01, 0x00, 0x96, 0x32],
        vec![0x31, 0x2f, 0x00, 0x00],
    ];
    for p in &loop_progs {
        for mx in 0..=(if thorough { 64 } else { 24 }) {
            for st in ["heap", "s2e1p1", "s4e2p3"] {
                emit(format!("expr-eval le 4 32 4 {st} - - {mx} {} -", hex(p)));
            }
        }
    }
    // stack capacity: k pushes against every storage
    for k in 0..=9usize {
        for st in STORAGES {
            let mut p: Vec<u8> = (0..k).map(|i| 0x30 + i as u8).collect();
            emit(format!("expr-eval le 8 32 4 {st} - - 64 {} -", hex(&p)));
            emit(format!("expr-eval le 8 32 4 {st} 7 - 64 {} -", hex(&p)));
            p.extend([0x50, 0x93, 0x01, 0x51, 0x93, 0x01, 0x93, 0x02]);
            emit(format!("expr-eval le 8 32 4 {st} - - 64 {} -", hex(&p)));
            // nested calls: call2 answered by an expression that calls again
            let calls = format!("generic:1/980100{:02x},generic:2/98020031,generic:3/32", 0x30 + k.min(9));
            emit(format!("expr-eval le 8 32 4 {st} - - 64 980000{} {calls}", hex(&[0x22])));
        }
    }
    // random programs with loops, branches, requests and scripted answers
    for i in 0..ctx.n(30_000, 1_000_000) {
        let c = pick_enc(&mut rng);
        let mut prog = gen_program(&mut rng, &c, if i % 3 == 0 { 16 } else { 7 }, 0);
        match rng.below(12) {
            0 => {
                let cut = rng.below(prog.len() as u64 + 1) as usize;
                prog.truncate(cut);
            }
            1 if !prog.is_empty() => {
                let k = rng.below(prog.len() as u64) as usize;
                prog[k] = rng.next() as u8;
            }
            _ => {}
        }
        let nscript = *rng.pick(&[0usize, 0, 1, 2, 3, 6]);
        let script = gen_script(&mut rng, &c, nscript);
        let safe = !has_branch(&prog) && !script.split(',').any(|t| t.split('/').nth(1).and_then(unhex).map_or(false, |b| has_branch(&b)));
        let cap = *rng.pick(&[4u64, 12, 40, 120]);
        let mx = if safe && rng.chance(1, 4) { None } else { Some(rng.below(cap)) };
        let init = if rng.chance(1, 4) { Some(rng.boundary_u64()) } else { None };
        let obj = if rng.chance(1, 2) { Some(rng.boundary_u64()) } else { None };
        let st = if rng.chance(2, 3) { "heap" } else { *rng.pick(STORAGES) };
        emit(format!("expr-eval {} {st} {} {} {} {} {script}", enc_str(&c), opt_str(init), opt_str(obj), opt_str(mx), hex(&prog)));
    }
    // integer-only programs (the naive interpreter judges all of these), all four address sizes
    for _ in 0..ctx.n(20_000, 600_000) {
        let big = rng.chance(1, 2);
        let c = EncCfg { e: if big { "be" } else { "le" }, big, asz: *rng.pick(&[1u8, 2, 4, 8]), fmt: "32", ver: 4 };
        let n = 2 + rng.below(10) as usize;
        let mut insns: Vec<Vec<u8>> = Vec::new();
        for _ in 0..n {
            let opc = if rng.chance(2, 5) { *rng.pick(CONSTS) } else if rng.chance(1, 8) { *rng.pick(&[0x28u8, 0x2f]) } else { *rng.pick(ARITH) };
            let mut v = vec![opc];
            if opc == 0x28 || opc == 0x2f {
                let off = rng.below(9) as i64 - 5;
                put_fixed(&mut v, big, 2, off as i16 as u16 as u64);
            } else {
                gen_operands(&mut rng, &c, opc, &mut v, 0);
            }
            insns.push(v);
        }
        let mut prog = insns.concat();
        if rng.chance(1, 6) {
            prog.push(*rng.pick(&[0x9fu8, 0x50]));
        }
        let mx = rng.below(60);
        emit(format!("expr-eval {} heap - {} {mx} {} -", enc_str(&c), opt_str(if rng.chance(1, 2) { Some(rng.boundary_u64()) } else { None }), hex(&prog)));
    }
}
