// Direct oracles for C07 (included into c07.rs). Nothing here looks at the Lean Model or at
// gimli's source structure: everything is recomputed with i128 arithmetic from the DWARF text.

// ------------------------------------------------------------------ small helpers

/// first LEB128 number of `bs`: (value mod 2^128, length, value >= 2^64 or longer than 10 bytes)
fn n_uleb(bs: &[u8]) -> Option<(u128, usize, bool)> {
    let mut v: u128 = 0;
    let mut big = false;
    for (i, b) in bs.iter().enumerate() {
        let low = (b & 0x7f) as u128;
        if 7 * i >= 70 {
            if low != 0 {
                big = true;
            }
        } else {
            v |= low << (7 * i);
        }
        if b & 0x80 == 0 {
            if v >> 64 != 0 || i + 1 > 10 {
                big = true;
            }
            return Some((v, i + 1, big));
        }
    }
    None
}

/// signed LEB128: (value, length, does not fit i64)
fn n_sleb(bs: &[u8]) -> Option<(i128, usize, bool)> {
    let (v, n, _) = n_uleb(bs)?;
    if n > 10 {
        return Some((0, n, true));
    }
    let sign = bs[n - 1] & 0x40 != 0;
    let v = if sign { v as i128 - (1i128 << (7 * n)) } else { v as i128 };
    let bad = v < i64::MIN as i128 || v > i64::MAX as i128;
    Some((v, n, bad))
}

fn n_fixed(big: bool, bs: &[u8]) -> u128 {
    let mut v: u128 = 0;
    if big {
        for b in bs {
            v = (v << 8) | *b as u128;
        }
    } else {
        for b in bs.iter().rev() {
            v = (v << 8) | *b as u128;
        }
    }
    v
}

fn n_signed(v: u128, bits: u32) -> i128 {
    let m = 1i128 << bits;
    let v = (v as i128).rem_euclid(m);
    if v >= m / 2 { v - m } else { v }
}

// ------------------------------------------------------------------ decode oracle

/// DWARF operand kinds (DWARF 5 §7.7.1 table 7.9 + the GNU / WASM extensions gimli accepts)
#[derive(Clone, Copy)]
enum Opd {
    U(usize),
    S(usize),
    Uleb,
    Sleb,
    Addr,
    Off,
    /// `DW_OP_implicit_pointer` reference: address sized in DWARF 2, offset sized later
    RefAddr,
    BlockUleb,
    Block1,
    Reg,
}

fn signature(opc: u8) -> Option<Vec<Opd>> {
    use Opd::*;
    Some(match opc {
        0x03 => vec![Addr],
        0x06 => vec![],
        0x08 => vec![U(1)],
        0x09 => vec![S(1)],
        0x0a => vec![U(2)],
        0x0b => vec![S(2)],
        0x0c => vec![U(4)],
        0x0d => vec![S(4)],
        0x0e => vec![U(8)],
        0x0f => vec![S(8)],
        0x10 => vec![Uleb],
        0x11 => vec![Sleb],
        0x12..=0x14 => vec![],
        0x15 => vec![U(1)],
        0x16..=0x22 => vec![],
        0x23 => vec![Uleb],
        0x24..=0x27 => vec![],
        0x28 => vec![S(2)],
        0x29..=0x2e => vec![],
        0x2f => vec![S(2)],
        0x30..=0x6f => vec![],
        0x70..=0x8f => vec![Sleb],
        0x90 => vec![Reg],
        0x91 => vec![Sleb],
        0x92 => vec![Reg, Sleb],
        0x93 => vec![Uleb],
        0x94 | 0x95 => vec![U(1)],
        0x96 | 0x97 => vec![],
        0x98 => vec![U(2)],
        0x99 => vec![U(4)],
        0x9a => vec![Off],
        0x9b | 0x9c => vec![],
        0x9d => vec![Uleb, Uleb],
        0x9e => vec![BlockUleb],
        0x9f => vec![],
        0xa0 | 0xf2 => vec![RefAddr, Sleb],
        0xa1 | 0xa2 | 0xfb | 0xfc => vec![Uleb],
        0xa3 | 0xf3 => vec![BlockUleb],
        0xa4 | 0xf4 => vec![Uleb, Block1],
        0xa5 | 0xf5 => vec![Reg, Uleb],
        0xa6 | 0xf6 | 0xa7 => vec![U(1), Uleb],
        0xa8 | 0xa9 | 0xf7 | 0xf9 => vec![Uleb],
        0xe0 | 0xf0 => vec![],
        0xfa => vec![U(4)],
        0xfd => vec![Off],
        _ => return None,
    })
}

enum Expect {
    /// must decode, consuming this many bytes; operand values as i128 in order (blocks: their length)
    Ok(usize, Vec<i128>),
    Fail,
    Unknown,
}

fn expect_decode(bs: &[u8], big: bool, enc: Encoding) -> Expect {
    let Some(&opc) = bs.first() else { return Expect::Fail };
    if opc == 0xed {
        // DW_OP_WASM_location: kind byte, then uleb (u32) or a fixed u32 for kind 3
        let Some(&k) = bs.get(1) else { return Expect::Fail };
        return match k {
            0..=2 => match n_uleb(&bs[2..]) {
                Some((v, n, big_)) if !big_ && v < (1 << 32) => Expect::Ok(2 + n, vec![k as i128, v as i128]),
                _ => Expect::Fail,
            },
            3 => {
                if bs.len() >= 6 {
                    Expect::Ok(6, vec![3, n_fixed(big, &bs[2..6]) as i128])
                } else {
                    Expect::Fail
                }
            }
            _ => Expect::Fail,
        };
    }
    let Some(sig) = signature(opc) else { return Expect::Fail };
    let mut pos = 1usize;
    let mut vals = vec![];
    for o in sig {
        let rest = &bs[pos..];
        let fixed = |n: usize, pos: &mut usize, vals: &mut Vec<i128>, signed: bool| -> bool {
            if rest.len() < n {
                return false;
            }
            let v = n_fixed(big, &rest[..n]);
            vals.push(if signed { n_signed(v, 8 * n as u32) } else { v as i128 });
            *pos += n;
            true
        };
        match o {
            Opd::U(n) => {
                if !fixed(n, &mut pos, &mut vals, false) {
                    return Expect::Fail;
                }
            }
            Opd::S(n) => {
                if !fixed(n, &mut pos, &mut vals, true) {
                    return Expect::Fail;
                }
            }
            Opd::Addr => {
                if !matches!(enc.address_size, 1 | 2 | 4 | 8) || !fixed(enc.address_size as usize, &mut pos, &mut vals, false) {
                    return Expect::Fail;
                }
            }
            Opd::Off => {
                if !fixed(enc.format.word_size() as usize, &mut pos, &mut vals, false) {
                    return Expect::Fail;
                }
            }
            Opd::RefAddr => {
                let n = if enc.version == 2 {
                    if !matches!(enc.address_size, 1 | 2 | 4 | 8) {
                        return Expect::Fail;
                    }
                    enc.address_size as usize
                } else {
                    enc.format.word_size() as usize
                };
                if !fixed(n, &mut pos, &mut vals, false) {
                    return Expect::Fail;
                }
            }
            Opd::Uleb | Opd::Reg => match n_uleb(rest) {
                Some((v, n, false)) => {
                    if matches!(o, Opd::Reg) && v > 0xffff {
                        return Expect::Fail;
                    }
                    vals.push(v as i128);
                    pos += n;
                }
                _ => return Expect::Fail,
            },
            Opd::Sleb => match n_sleb(rest) {
                Some((v, n, false)) => {
                    vals.push(v);
                    pos += n;
                }
                // a 10-byte encoding whose value does not fit: reader must reject
                Some((_, _, true)) => return Expect::Fail,
                None => return Expect::Fail,
            },
            Opd::BlockUleb => match n_uleb(rest) {
                Some((v, n, false)) => {
                    if (rest.len() - n) as u128 >= v {
                        vals.push(v as i128);
                        pos += n + v as usize;
                    } else {
                        return Expect::Fail;
                    }
                }
                _ => return Expect::Fail,
            },
            Opd::Block1 => {
                let Some(&l) = rest.first() else { return Expect::Fail };
                if rest.len() - 1 >= l as usize {
                    vals.push(l as i128);
                    pos += 1 + l as usize;
                } else {
                    return Expect::Fail;
                }
            }
        }
    }
    // DW_OP_piece: the byte size must be expressible in bits (gimli reports sizes in bits as u64)
    if opc == 0x93 && vals[0] >= (1i128 << 61) {
        return Expect::Unknown;
    }
    Expect::Ok(pos, vals)
}

/// expected canonical text for the operations whose meaning is a plain function of the operands
fn expect_text(opc: u8, v: &[i128], enc: Encoding) -> Option<String> {
    Some(match opc {
        0x03 => format!("addr({})", v[0]),
        0x06 => format!("deref(0,{},0)", enc.address_size),
        0x08 | 0x0a | 0x0c | 0x0e | 0x10 => format!("uconst({})", v[0]),
        0x09 | 0x0b | 0x0d | 0x0f | 0x11 => format!("sconst({})", v[0]),
        0x12 => "pick(0)".into(),
        0x13 => "drop".into(),
        0x14 => "pick(1)".into(),
        0x15 => format!("pick({})", v[0]),
        0x16 => "swap".into(),
        0x17 => "rot".into(),
        0x18 => format!("deref(0,{},1)", enc.address_size),
        0x23 => format!("plus_uconst({})", v[0]),
        0x28 => format!("bra({})", v[0]),
        0x2f => format!("skip({})", v[0]),
        0x30..=0x4f => format!("uconst({})", opc - 0x30),
        0x50..=0x6f => format!("reg({})", opc - 0x50),
        0x70..=0x8f => format!("breg({},{},0)", opc - 0x70, v[0]),
        0x90 => format!("reg({})", v[0]),
        0x91 => format!("fbreg({})", v[0]),
        0x92 => format!("breg({},{},0)", v[0], v[1]),
        0x93 => format!("piece({},-)", v[0] * 8),
        0x94 => format!("deref(0,{},0)", v[0]),
        0x95 => format!("deref(0,{},1)", v[0]),
        0x98 | 0x99 => format!("call_unit({})", v[0]),
        0x9a => format!("call_info({})", v[0]),
        0x9d => format!("piece({},{})", v[0], v[1]),
        0xa0 | 0xf2 => format!("implicit_pointer({},{})", v[0], v[1]),
        0xa1 | 0xfb => format!("addrx({})", v[0]),
        0xa2 | 0xfc => format!("constx({})", v[0]),
        0xa5 | 0xf5 => format!("breg({},0,{})", v[0], v[1]),
        0xa6 | 0xf6 => format!("deref({},{},0)", v[1], v[0]),
        0xa7 => format!("deref({},{},1)", v[1], v[0]),
        0xa8 | 0xf7 => format!("convert({})", v[0]),
        0xa9 | 0xf9 => format!("reinterpret({})", v[0]),
        0xfa => format!("parameter_ref({})", v[0]),
        0xfd => format!("variable_value({})", v[0]),
        _ => return None,
    })
}

fn oracle_decode(bs: &[u8], big: bool, enc: Encoding, res: &Result<Operation<R>, gimli::Error>, consumed: usize) -> Option<String> {
    match (expect_decode(bs, big, enc), res) {
        (Expect::Unknown, _) => None,
        (Expect::Ok(n, vals), Ok(op)) => {
            if n != consumed {
                return Some(format!("decode-length expected={n} got={consumed}"));
            }
            if let Some(t) = expect_text(bs[0], &vals, enc) {
                let got = render_op(op);
                if t != got {
                    return Some(format!("decode-operands expected={t} got={got}"));
                }
            }
            None
        }
        (Expect::Ok(n, _), Err(e)) => Some(format!("decode-rejected expected-length={n} got={}", rerr(e))),
        (Expect::Fail, Ok(op)) => Some(format!("decode-accepted got={}", render_op(op))),
        (Expect::Fail, Err(_)) => None,
    }
}

// ------------------------------------------------------------------ value oracle

#[derive(Clone, Copy, PartialEq)]
enum NK {
    Gen,
    S(u32),
    U(u32),
    F,
}

/// (kind, bit pattern as stored)
fn n_kind(v: &Value) -> (NK, u64) {
    match *v {
        Value::Generic(x) => (NK::Gen, x),
        Value::I8(x) => (NK::S(8), x as u8 as u64),
        Value::U8(x) => (NK::U(8), x as u64),
        Value::I16(x) => (NK::S(16), x as u16 as u64),
        Value::U16(x) => (NK::U(16), x as u64),
        Value::I32(x) => (NK::S(32), x as u32 as u64),
        Value::U32(x) => (NK::U(32), x as u64),
        Value::I64(x) => (NK::S(64), x as u64),
        Value::U64(x) => (NK::U(64), x),
        Value::F32(x) => (NK::F, x.to_bits() as u64),
        Value::F64(x) => (NK::F, x.to_bits()),
    }
}

fn addr_bits(mask: u64) -> Option<u32> {
    match mask {
        0xff => Some(8),
        0xffff => Some(16),
        0xffff_ffff => Some(32),
        u64::MAX => Some(64),
        _ => None,
    }
}

/// mathematical value of an integer operand: generic values are unsigned residues mod 2^bits
fn n_math(k: NK, pat: u64, gbits: u32) -> Option<(i128, u32, bool)> {
    // (unsigned residue, width, signed type?)
    match k {
        NK::Gen => Some(((pat as u128 & ((1u128 << gbits) - 1)) as i128, gbits, false)),
        NK::S(w) => Some((pat as i128, w, true)),
        NK::U(w) => Some((pat as i128, w, false)),
        NK::F => None,
    }
}

enum NExp {
    /// result of the operand type, this residue modulo 2^width
    Val(i128),
    /// a generic 0/1
    Bool(bool),
    Err(&'static str),
    Unknown,
}

fn n_binary(op: &str, a: &Value, b: &Value, mask: u64) -> (NExp, bool) {
    // second component: the shift count is a generic value with bits above the address size
    let Some(gbits) = addr_bits(mask) else { return (NExp::Unknown, false) };
    let (ka, pa) = n_kind(a);
    let (kb, pb) = n_kind(b);
    let shift = matches!(op, "shl" | "shr" | "shra");
    let mut tainted = false;
    if shift {
        // count: any integral type, must not be negative
        let Some((cb, wb, sb)) = n_math(kb, pb, gbits) else { return (NExp::Err("InvalidShiftExpression"), false) };
        let count = if sb { n_signed(cb as u128, wb) } else { cb };
        if count < 0 {
            return (NExp::Err("InvalidShiftExpression"), false);
        }
        if kb == NK::Gen && pb & !mask != 0 {
            tainted = true;
        }
        let Some((xa, wa, sa)) = n_math(ka, pa, gbits) else { return (NExp::Err("IntegralTypeRequired"), tainted) };
        let m = 1i128 << wa;
        let r = match op {
            "shl" => if count >= wa as i128 { 0 } else { (xa << count).rem_euclid(m) },
            "shr" => {
                if sa {
                    return (NExp::Err("UnsupportedTypeOperation"), tainted);
                }
                if count >= wa as i128 { 0 } else { xa >> count }
            }
            _ => {
                if !sa && ka != NK::Gen {
                    return (NExp::Err("UnsupportedTypeOperation"), tainted);
                }
                let s = n_signed(xa as u128, wa);
                if count >= wa as i128 { if s < 0 { m - 1 } else { 0 } } else { (s >> count).rem_euclid(m) }
            }
        };
        return (NExp::Val(r), tainted);
    }
    // division by zero is reported before the types are compared
    if matches!(op, "div" | "rem") {
        if let Some((xb, _, _)) = n_math(kb, pb, gbits) {
            if xb == 0 {
                return (NExp::Err("DivisionByZero"), false);
            }
        }
    }
    if ka != kb || a.value_type() != b.value_type() {
        return (NExp::Err("TypeMismatch"), false);
    }
    if ka == NK::F {
        return match op {
            "rem" | "and" | "or" | "xor" => (NExp::Err("IntegralTypeRequired"), false),
            _ => (NExp::Unknown, false),
        };
    }
    let (xa, w, sa) = n_math(ka, pa, gbits).unwrap();
    let (xb, _, _) = n_math(kb, pb, gbits).unwrap();
    let m = 1i128 << w;
    // signed reading: signed types, and generic values for div / comparisons
    let (sa_, sb_) = (n_signed(xa as u128, w), n_signed(xb as u128, w));
    let signed_view = sa || ka == NK::Gen;
    let r = match op {
        "add" => (xa + xb).rem_euclid(m),
        "sub" => (xa - xb).rem_euclid(m),
        "mul" => ((xa as u128 * xb as u128) % m as u128) as i128,
        "div" => {
            if signed_view {
                // truncating division; MIN / -1 wraps
                (sa_ / sb_).rem_euclid(m)
            } else {
                xa / xb
            }
        }
        "rem" => {
            if sa {
                (sa_ % sb_).rem_euclid(m)
            } else {
                xa % xb
            }
        }
        "and" => xa & xb,
        "or" => xa | xb,
        "xor" => xa ^ xb,
        "eq" | "ne" | "lt" | "le" | "gt" | "ge" => {
            let (l, r) = if signed_view { (sa_, sb_) } else { (xa, xb) };
            return (
                NExp::Bool(match op {
                    "eq" => l == r,
                    "ne" => l != r,
                    "lt" => l < r,
                    "le" => l <= r,
                    "gt" => l > r,
                    _ => l >= r,
                }),
                false,
            );
        }
        _ => return (NExp::Unknown, false),
    };
    (NExp::Val(r), false)
}

fn n_check(exp: NExp, ty: ValueType, mask: u64, r: &VRes) -> Option<String> {
    let gbits = addr_bits(mask)?;
    match (exp, r) {
        (NExp::Unknown, _) => None,
        (NExp::Err(name), Err(e)) => {
            if rerr(e) == name { None } else { Some(format!("value-error expected={name} got={}", rerr(e))) }
        }
        (NExp::Err(name), Ok(v)) => Some(format!("value-error expected={name} got={}", render_value(v))),
        (NExp::Val(_), Err(e)) | (NExp::Bool(_), Err(e)) => Some(format!("value-rejected got={}", rerr(e))),
        (NExp::Bool(b), Ok(v)) => {
            let (k, p) = n_kind(v);
            if k == NK::Gen && (p as u128 & ((1u128 << gbits) - 1)) == b as u128 { None } else { Some(format!("value-wrong expected={} got={}", b as u8, render_value(v))) }
        }
        (NExp::Val(x), Ok(v)) => {
            if v.value_type() != ty {
                return Some(format!("value-type got={}", render_value(v)));
            }
            let (k, p) = n_kind(v);
            let got = match k {
                NK::Gen => (p as u128 & ((1u128 << gbits) - 1)) as i128,
                _ => p as i128,
            };
            if got == x { None } else { Some(format!("value-wrong expected={x} got={}", render_value(v))) }
        }
    }
}

fn oracle_binary(op: &str, a: &Value, b: &Value, mask: u64, r: &VRes) -> Option<String> {
    let (exp, tainted) = n_binary(op, a, b, mask);
    // `tainted`: a generic count with bits above the address size (finding C07-1, fixed): judged like
    // every other operand now
    let _ = tainted;
    n_check(exp, a.value_type(), mask, r)
}

fn oracle_unary(op: &str, a: &Value, mask: u64, r: &VRes) -> Option<String> {
    let gbits = addr_bits(mask)?;
    let (k, p) = n_kind(a);
    let exp = match n_math(k, p, gbits) {
        None => NExp::Unknown.into_not(op),
        Some((x, w, signed)) => {
            let m = 1i128 << w;
            let s = n_signed(x as u128, w);
            match op {
                "abs" => NExp::Val(if signed || k == NK::Gen { s.abs().rem_euclid(m) } else { x }),
                "neg" => {
                    if signed || k == NK::Gen { NExp::Val((-s).rem_euclid(m)) } else { NExp::Err("UnsupportedTypeOperation") }
                }
                "not" => NExp::Val(m - 1 - x),
                _ => NExp::Unknown,
            }
        }
    };
    n_check(exp, a.value_type(), mask, r)
}

impl NExp {
    fn into_not(self, op: &str) -> NExp {
        // floats: `not` needs an integral type; abs/neg are float operations (not judged)
        if op == "not" { NExp::Err("IntegralTypeRequired") } else { self }
    }
}

fn type_bits(t: ValueType, gbits: u32) -> (NK, u32) {
    match t {
        ValueType::Generic => (NK::Gen, gbits),
        ValueType::I8 => (NK::S(8), 8),
        ValueType::U8 => (NK::U(8), 8),
        ValueType::I16 => (NK::S(16), 16),
        ValueType::U16 => (NK::U(16), 16),
        ValueType::I32 => (NK::S(32), 32),
        ValueType::U32 => (NK::U(32), 32),
        ValueType::I64 => (NK::S(64), 64),
        ValueType::U64 => (NK::U(64), 64),
        ValueType::F32 => (NK::F, 32),
        ValueType::F64 => (NK::F, 64),
    }
}

fn oracle_convert(op: &str, a: &Value, t: ValueType, mask: u64, r: &VRes) -> Option<String> {
    let gbits = addr_bits(mask)?;
    let (k, p) = n_kind(a);
    let (tk, tw) = type_bits(t, gbits);
    let (_, sw) = type_bits(a.value_type(), gbits);
    if op == "reinterpret" && sw != tw {
        return n_check(NExp::Err("TypeMismatch"), t, mask, r);
    }
    if k == NK::F || tk == NK::F {
        return None;
    }
    let (x, w, signed) = n_math(k, p, gbits)?;
    // integer conversion: the mathematical value (sign extended if the source is signed), reduced
    // to the target width; reinterpret: same bits
    let v = if signed { n_signed(x as u128, w) } else { x };
    let exp = v.rem_euclid(1i128 << tw);
    n_check(NExp::Val(exp), t, mask, r)
}

// ------------------------------------------------------------------ naive interpreter (integer fragment)

#[derive(Debug, PartialEq, Clone)]
enum NLoc {
    Empty,
    Reg(u64),
    Addr(u128),
    Val(u128),
}

#[derive(Debug)]
enum NOut {
    /// no location operations: the top of the stack
    Value(u128),
    Pieces(Vec<(Option<u64>, Option<u64>, NLoc)>),
    /// must be an error; `Some(name)`: this one
    Fail(Option<&'static str>),
    Unknown,
}

struct Naive {
    out: NOut,
    /// a shift was executed whose count could carry bits above the address size inside gimli
    shift_taint: bool,
}

fn naive_eval(a: &EvalArgs) -> Naive {
    let prog = a.prog;
    let big = a.endian == RunTimeEndian::Big;
    let asz = a.encoding.address_size;
    let unknown = |t| Naive { out: NOut::Unknown, shift_taint: t };
    if !matches!(asz, 1 | 2 | 4 | 8) {
        return unknown(false);
    }
    let bits = 8 * asz as u32;
    let m: u128 = 1u128 << bits;
    let sg = |x: u128| -> i128 { n_signed(x, bits) };
    let md = |x: i128| -> u128 { x.rem_euclid(m as i128) as u128 };
    // (value, may be stored unmasked by an implementation that computes in 64 bits)
    let mut stack: Vec<(u128, bool)> = Vec::new();
    if let Some(v) = a.init {
        stack.push((v as u128 % m, v as u128 >= m));
    }
    let mut pieces: Vec<(Option<u64>, Option<u64>, NLoc)> = Vec::new();
    let mut pc = 0usize;
    let mut iters: u64 = 0;
    let mut taint = false;
    // ops executed since the last piece was completed
    let mut loose = false;
    let fail = |n, t| Naive { out: NOut::Fail(n), shift_taint: t };
    macro_rules! pop {
        () => {
            match stack.pop() {
                Some(x) => x,
                None => return fail(None, taint),
            }
        };
    }
    // decode a piece operation at `pc`: (size in bits, bit offset, length)
    let piece_at = |pc: usize| -> Option<(u64, Option<u64>, usize)> {
        match prog.get(pc)? {
            0x93 => {
                let (v, n, bad) = n_uleb(&prog[pc + 1..])?;
                if bad || v >= 1 << 61 {
                    return None;
                }
                Some((v as u64 * 8, None, 1 + n))
            }
            0x9d => {
                let (s, n1, b1) = n_uleb(&prog[pc + 1..])?;
                let (o, n2, b2) = n_uleb(&prog[pc + 1 + n1..])?;
                if b1 || b2 {
                    return None;
                }
                Some((s as u64, Some(o as u64), 1 + n1 + n2))
            }
            _ => None,
        }
    };
    while pc < prog.len() {
        iters += 1;
        if let Some(mx) = a.max {
            if iters > mx.min(u32::MAX as u64) {
                return fail(Some("TooManyIterations"), taint);
            }
        }
        if iters > 20_000 {
            return unknown(taint);
        }
        let opc = prog[pc];
        let rest = &prog[pc + 1..];
        let mut next = pc + 1;
        // a location description completed by this op
        let mut loc: Option<NLoc> = None;
        match opc {
            0x30..=0x4f => stack.push(((opc - 0x30) as u128 % m, false)),
            0x08 | 0x0a | 0x0c | 0x0e | 0x09 | 0x0b | 0x0d | 0x0f => {
                let n = 1usize << ((opc - 0x08) / 2);
                if rest.len() < n {
                    return fail(None, taint);
                }
                let raw = n_fixed(big, &rest[..n]);
                let signed = opc & 1 == 1;
                let v = if signed { md(n_signed(raw, 8 * n as u32)) } else { raw % m };
                let sv = n_signed(raw, 8 * n as u32);
                let wide = if signed { bits < 64 && (sv < 0 || sv as u128 >= m) } else { raw >= m };
                stack.push((v, wide));
                next += n;
            }
            0x10 => match n_uleb(rest) {
                Some((v, n, false)) => {
                    stack.push((v % m, v >= m));
                    next += n;
                }
                _ => return fail(None, taint),
            },
            0x11 => match n_sleb(rest) {
                Some((v, n, false)) => {
                    stack.push((md(v), bits < 64 && (v < 0 || v as u128 >= m)));
                    next += n;
                }
                _ => return fail(None, taint),
            },
            0x12 => {
                let x = pop!();
                stack.push(x);
                stack.push(x);
            }
            0x13 => {
                pop!();
            }
            0x14 | 0x15 => {
                let idx = if opc == 0x14 {
                    1
                } else {
                    let Some(&i) = rest.first() else { return fail(None, taint) };
                    next += 1;
                    i as usize
                };
                if idx >= stack.len() {
                    return fail(None, taint);
                }
                let x = stack[stack.len() - 1 - idx];
                stack.push(x);
            }
            0x16 => {
                let t = pop!();
                let s = pop!();
                stack.push(t);
                stack.push(s);
            }
            0x17 => {
                // top becomes third, second becomes top, third becomes second
                let t = pop!();
                let s = pop!();
                let th = pop!();
                stack.push(t);
                stack.push(th);
                stack.push(s);
            }
            0x19 => {
                let (x, _) = pop!();
                stack.push((md(sg(x).abs()), bits < 64));
            }
            0x1f => {
                let (x, _) = pop!();
                stack.push((md(-sg(x)), bits < 64));
            }
            0x20 => {
                let (x, _) = pop!();
                stack.push((m - 1 - x, bits < 64));
            }
            0x23 => match n_uleb(rest) {
                Some((v, n, false)) => {
                    let (x, _) = pop!();
                    stack.push(((x + v % m) % m, false));
                    next += n;
                }
                _ => return fail(None, taint),
            },
            0x1a | 0x1b | 0x1c | 0x1d | 0x1e | 0x21 | 0x22 | 0x24 | 0x25 | 0x26 | 0x27 | 0x29..=0x2e => {
                let (y, ywide) = pop!();
                let (x, _) = pop!();
                let r: (u128, bool) = match opc {
                    0x1a => (x & y, false),
                    0x1b => {
                        if y == 0 {
                            return fail(Some("DivisionByZero"), taint);
                        }
                        (md(sg(x) / sg(y)), bits < 64)
                    }
                    0x1c => (md(x as i128 - y as i128), false),
                    0x1d => {
                        if y == 0 {
                            return fail(Some("DivisionByZero"), taint);
                        }
                        (x % y, false)
                    }
                    0x1e => ((x * y) % m, false),
                    0x21 => (x | y, false),
                    0x22 => ((x + y) % m, false),
                    0x24 | 0x25 | 0x26 => {
                        if ywide {
                            taint = true;
                        }
                        let big_count = y >= bits as u128;
                        match opc {
                            0x24 => (if big_count { 0 } else { (x << y) % m }, bits < 64),
                            0x25 => (if big_count { 0 } else { x >> y }, false),
                            _ => (if big_count { if sg(x) < 0 { m - 1 } else { 0 } } else { md(sg(x) >> y) }, bits < 64),
                        }
                    }
                    0x27 => (x ^ y, false),
                    0x29 => ((sg(x) == sg(y)) as u128, false),
                    0x2a => ((sg(x) >= sg(y)) as u128, false),
                    0x2b => ((sg(x) > sg(y)) as u128, false),
                    0x2c => ((sg(x) <= sg(y)) as u128, false),
                    0x2d => ((sg(x) < sg(y)) as u128, false),
                    _ => ((sg(x) != sg(y)) as u128, false),
                };
                stack.push(r);
            }
            0x28 | 0x2f => {
                if rest.len() < 2 {
                    return fail(None, taint);
                }
                let off = n_signed(n_fixed(big, &rest[..2]), 16);
                next += 2;
                let take = if opc == 0x2f { true } else { pop!().0 != 0 };
                if take {
                    let target = next as i128 + off;
                    if target < 0 || target > prog.len() as i128 {
                        return fail(Some("BadBranchTarget"), taint);
                    }
                    next = target as usize;
                }
            }
            0x96 => {}
            0x97 => match a.obj {
                Some(v) => stack.push((v as u128 % m, v as u128 >= m)),
                None => return fail(Some("InvalidPushObjectAddress"), taint),
            },
            0x50..=0x6f => loc = Some(NLoc::Reg((opc - 0x50) as u64)),
            0x9f => loc = Some(NLoc::Val(pop!().0)),
            0x93 | 0x9d => {
                let Some((size, off, n)) = piece_at(pc) else { return unknown(taint) };
                let l = match stack.pop() {
                    None => NLoc::Empty,
                    Some((x, _)) => NLoc::Addr(x),
                };
                pieces.push((Some(size), off, l));
                next = pc + n;
                loose = false;
                pc = next;
                continue;
            }
            _ => return unknown(taint),
        }
        pc = next;
        if let Some(l) = loc {
            if pc >= prog.len() {
                if !pieces.is_empty() {
                    // a location without its piece after earlier pieces: not a DWARF composite
                    return unknown(taint);
                }
                pieces.push((None, None, l));
                return Naive { out: NOut::Pieces(pieces), shift_taint: taint };
            }
            // more operations follow: the next one must be a piece (decoded without an iteration)
            match piece_at(pc) {
                Some((size, off, n)) => {
                    pieces.push((Some(size), off, l));
                    pc += n;
                    loose = false;
                }
                None => return fail(None, taint),
            }
        } else {
            loose = true;
        }
    }
    if pieces.is_empty() {
        match stack.pop() {
            Some((x, _)) => Naive { out: NOut::Value(x), shift_taint: taint },
            None => fail(None, taint),
        }
    } else if loose {
        // operations after the last piece that describe nothing: gimli rejects; DWARF is silent
        unknown(taint)
    } else {
        Naive { out: NOut::Pieces(pieces), shift_taint: taint }
    }
}

/// compare the implementation's reply (canonical text) with the naive interpreter
fn oracle_eval(a: &EvalArgs, reply: &str) -> Option<String> {
    let n = naive_eval(a);
    let bits = 8 * a.encoding.address_size as u32;
    let m: u128 = if bits >= 128 { return None } else { 1u128 << bits };
    // (`shift_taint` marked the runs affected by finding C07-1 while it was open; since the fix every
    // mismatch is reported under its plain class)
    let _ = n.shift_taint;
    let class = |w: &str| -> Option<String> { Some(w.to_string()) };
    let Some(body) = reply.strip_prefix("ok ") else {
        // diverge / panic: only an expected plain result makes that wrong
        return match n.out {
            NOut::Unknown => None,
            _ => class(&format!("naive-no-result reply={}", reply.split(' ').next().unwrap_or(""))),
        };
    };
    let (reqs, fin) = body.split_once(' ')?;
    match n.out {
        NOut::Unknown => None,
        NOut::Fail(name) => {
            let Some(e) = fin.strip_prefix("err:") else { return class(&format!("naive-expected-error got={fin}")) };
            match name {
                Some(nm) if nm != e => class(&format!("naive-error expected={nm} got={e}")),
                _ => None,
            }
        }
        NOut::Value(v) => {
            if let Some(e) = fin.strip_prefix("err:") {
                return class(&format!("naive-unexpected-error expected={v} got={e}"));
            }
            if reqs != "complete" {
                return class(&format!("naive-requests got={reqs}"));
            }
            // done[-:-:addr(A)]v=generic:V
            let want_ok = (|| {
                let inner = fin.strip_prefix("done[-:-:addr(")?;
                let (addr, rest) = inner.split_once(")]v=generic:")?;
                let addr: u128 = addr.parse().ok()?;
                let val: u128 = rest.parse().ok()?;
                Some(addr % m == v && val % m == v)
            })();
            if want_ok == Some(true) { None } else { class(&format!("naive-value expected={v} got={fin}")) }
        }
        NOut::Pieces(ps) => {
            if let Some(e) = fin.strip_prefix("err:") {
                return class(&format!("naive-unexpected-error got={e}"));
            }
            if reqs != "complete" {
                return class(&format!("naive-requests got={reqs}"));
            }
            let Some(inner) = fin.strip_prefix("done[").and_then(|s| s.split_once("]v=")).map(|x| x.0) else {
                return class(&format!("naive-pieces got={fin}"));
            };
            let got: Vec<&str> = if inner.is_empty() { vec![] } else { inner.split('|').collect() };
            if got.len() != ps.len() {
                return class(&format!("naive-pieces expected={} got={fin}", ps.len()));
            }
            for (g, (size, off, loc)) in got.iter().zip(ps.iter()) {
                let f: Vec<&str> = g.splitn(3, ':').collect();
                if f.len() != 3 || f[0] != opt_s(*size) || f[1] != opt_s(*off) {
                    return class(&format!("naive-piece-shape got={g}"));
                }
                let ok = match loc {
                    NLoc::Empty => f[2] == "empty",
                    NLoc::Reg(r) => f[2] == format!("reg({r})"),
                    NLoc::Addr(x) => f[2].strip_prefix("addr(").and_then(|s| s.strip_suffix(')')).and_then(|s| s.parse::<u128>().ok()).map_or(false, |v| v % m == *x),
                    NLoc::Val(x) => f[2].strip_prefix("val(generic:").and_then(|s| s.strip_suffix(')')).and_then(|s| s.parse::<u128>().ok()).map_or(false, |v| v % m == *x),
                };
                if !ok {
                    return class(&format!("naive-piece-location expected={loc:?} got={g}"));
                }
            }
            None
        }
    }
}
