//! C06 — unwind table rows equal DWARF call-frame semantics.
//!
//! Implementation side of the `cfi-*` ops: every request builds a real `.debug_frame` /
//! `.eh_frame` section (one CIE at offset 0, one FDE after it; layout documented in
//! `lean/Gimli/Drv/C06.lean`) and runs gimli's own entry parser, `CallFrameInstructionIter` and
//! `UnwindTable::next_row` on it, with the requested `UnwindContextStorage`.
//!
//! Direct oracle (independent of the Lean model): a naive interpreter of DWARF §6.4 over abstract
//! instructions decoded by a separate tiny decoder (`odecode`): register map = `BTreeMap`,
//! unbounded `Vec` stack, initial rules = the map after the CIE program, factored operands in
//! `i128` reduced mod 2^64.  It predicts the rows, the invalid-instruction errors and — from the
//! *spec-level* depth / rule count — `StackFull` / `TooManyRegisterRules`.
use crate::prop::{Ctx, Tier};
use crate::util::{digest_step, hex, rerr, str_hash, unhex, Rng, DIGEST_INIT};
use gimli::{
    BaseAddresses, CallFrameInstruction, CfaRule, DebugFrame, EhFrame, EndianSlice, FrameDescriptionEntry, Register, RegisterRule,
    RunTimeEndian, StoreOnHeap, UnwindContext, UnwindContextStorage, UnwindSection, UnwindTableRow, Vendor,
};
use std::collections::BTreeMap;

type Rd<'a> = EndianSlice<'a, RunTimeEndian>;

// ---------------------------------------------------------------- storages

#[derive(PartialEq, Eq)]
struct St<const R: usize, const N: usize>;
impl<T: gimli::ReaderOffset, const R: usize, const N: usize> UnwindContextStorage<T> for St<R, N> {
    type Rules = [(Register, RegisterRule<T>); N];
    type Stack = [UnwindTableRow<T, Self>; R];
}
#[derive(PartialEq, Eq)]
struct StBox<const R: usize, const N: usize>;
impl<T: gimli::ReaderOffset, const R: usize, const N: usize> UnwindContextStorage<T> for StBox<R, N> {
    type Rules = [(Register, RegisterRule<T>); N];
    type Stack = Box<[UnwindTableRow<T, Self>; R]>;
}
#[derive(PartialEq, Eq)]
struct StVec;
impl<T: gimli::ReaderOffset> UnwindContextStorage<T> for StVec {
    type Rules = Vec<(Register, RegisterRule<T>)>;
    type Stack = Vec<UnwindTableRow<T, Self>>;
}

/// (rows, rules) capacities of a storage name; `None` = unbounded
fn caps(storage: &str) -> Option<(Option<usize>, Option<usize>)> {
    Some(match storage {
        "heap" => (Some(4), Some(192)),
        "vec" => (None, None),
        "a4x192" => (Some(4), Some(192)),
        "a5x193" => (Some(5), Some(193)),
        "a1x1" => (Some(1), Some(1)),
        "a2x2" => (Some(2), Some(2)),
        "a2x1" => (Some(2), Some(1)),
        "a3x1" => (Some(3), Some(1)),
        "a3x3" => (Some(3), Some(3)),
        "a8x8" => (Some(8), Some(8)),
        "a1x0" => (Some(1), Some(0)),
        "a0x4" => (Some(0), Some(4)),
        _ => return None,
    })
}

// ---------------------------------------------------------------- request

#[derive(Clone)]
struct Req {
    eh: bool,
    big: bool,
    asz: u8,
    enc: u8,
    aarch64: bool,
    bases: [Option<u64>; 3],
    caf: u64,
    daf: i64,
    cie: Vec<u8>,
    addrs: Vec<u8>,
    fde: Vec<u8>,
}

fn opt_u64(s: &str) -> Option<Option<u64>> {
    if s == "-" { Some(None) } else { s.parse().ok().map(Some) }
}

fn mk_req(kind: &str, endian: &str, asz: &str, enc: &str, vendor: &str, bases: &str, caf: &str, daf: &str, cie: &str, addrs: &str, fde: &str) -> Option<Req> {
    let eh = match kind {
        "df" => false,
        "eh" => true,
        _ => return None,
    };
    let big = match endian {
        "le" => false,
        "be" => true,
        _ => return None,
    };
    let aarch64 = match vendor {
        "default" => false,
        "aarch64" => true,
        _ => return None,
    };
    let b: Vec<&str> = bases.split(',').collect();
    if b.len() != 3 {
        return None;
    }
    Some(Req {
        eh,
        big,
        asz: asz.parse().ok()?,
        enc: if enc == "-" { 0 } else { enc.parse().ok()? },
        aarch64,
        bases: [opt_u64(b[0])?, opt_u64(b[1])?, opt_u64(b[2])?],
        caf: caf.parse().ok()?,
        daf: daf.parse().ok()?,
        cie: unhex(cie)?,
        addrs: unhex(addrs)?,
        fde: unhex(fde)?,
    })
}

fn uleb(mut v: u64) -> Vec<u8> {
    let mut o = vec![];
    loop {
        let b = (v & 0x7f) as u8;
        v >>= 7;
        if v == 0 {
            o.push(b);
            return o;
        }
        o.push(b | 0x80);
    }
}
fn sleb(mut v: i64) -> Vec<u8> {
    let mut o = vec![];
    loop {
        let b = (v & 0x7f) as u8;
        v >>= 7;
        if (v == 0 && b & 0x40 == 0) || (v == -1 && b & 0x40 != 0) {
            o.push(b);
            return o;
        }
        o.push(b | 0x80);
    }
}

impl Req {
    fn w32(&self, out: &mut Vec<u8>, x: u32) {
        out.extend_from_slice(&if self.big { x.to_be_bytes() } else { x.to_le_bytes() });
    }
    /// the section and the offset of the FDE in it
    fn build(&self) -> (Vec<u8>, usize) {
        let mut cie = vec![];
        if self.eh {
            self.w32(&mut cie, 0);
            cie.push(1);
            cie.extend_from_slice(b"zR\0");
            cie.extend(uleb(self.caf));
            cie.extend(sleb(self.daf));
            cie.push(0);
            cie.push(1);
            cie.push(self.enc);
        } else {
            self.w32(&mut cie, 0xffff_ffff);
            cie.push(4);
            cie.push(0);
            cie.push(self.asz);
            cie.push(0);
            cie.extend(uleb(self.caf));
            cie.extend(sleb(self.daf));
            cie.push(0);
        }
        cie.extend_from_slice(&self.cie);
        let mut sec = vec![];
        self.w32(&mut sec, cie.len() as u32);
        sec.extend(cie);
        let fde_off = sec.len();
        let mut fde = vec![];
        if self.eh {
            self.w32(&mut fde, (fde_off + 4) as u32);
            fde.extend_from_slice(&self.addrs);
            fde.push(0);
        } else {
            self.w32(&mut fde, 0);
            fde.extend_from_slice(&self.addrs);
        }
        fde.extend_from_slice(&self.fde);
        self.w32(&mut sec, fde.len() as u32);
        sec.extend(fde);
        (sec, fde_off)
    }
    fn endian(&self) -> RunTimeEndian {
        if self.big { RunTimeEndian::Big } else { RunTimeEndian::Little }
    }
    fn base_addresses(&self) -> BaseAddresses {
        let mut b = BaseAddresses::default();
        if let Some(x) = self.bases[0] {
            b = b.set_eh_frame(x);
        }
        if let Some(x) = self.bases[1] {
            b = b.set_text(x);
        }
        if let Some(x) = self.bases[2] {
            b = b.set_got(x);
        }
        b
    }
    fn vendor(&self) -> Vendor {
        if self.aarch64 { Vendor::AArch64 } else { Vendor::Default }
    }
}

// ---------------------------------------------------------------- canonical text

fn ex_bytes(sec: &[u8], e: &gimli::UnwindExpression<usize>) -> String {
    // the bytes through the public accessor `UnwindExpression::get` …
    let s = DebugFrame::new(sec, RunTimeEndian::Little);
    let via_get: Option<Vec<u8>> = e.get::<Rd<'_>, _>(&s).ok().map(|x| x.0.slice().to_vec());
    // … must be the section bytes [offset, offset + length)
    match sec.get(e.offset..e.offset.wrapping_add(e.length)) {
        Some(b) if via_get.as_deref() == Some(b) => hex(b),
        Some(b) => format!("!get-differs:{}:{:?}", hex(b), via_get.map(|v| hex(&v))).replace(' ', ""),
        None => format!("!oob{}+{}", e.offset, e.length),
    }
}

fn instr_s(i: &CallFrameInstruction<usize>, sec: &[u8]) -> String {
    use CallFrameInstruction::*;
    match i {
        SetLoc { address } => format!("sl:{address}"),
        AdvanceLoc { delta } => format!("al:{delta}"),
        DefCfa { register, offset } => format!("dc:{},{}", register.0, offset),
        DefCfaSf { register, factored_offset } => format!("dcs:{},{}", register.0, factored_offset),
        DefCfaRegister { register } => format!("dcr:{}", register.0),
        DefCfaOffset { offset } => format!("dco:{offset}"),
        DefCfaOffsetSf { factored_offset } => format!("dcos:{factored_offset}"),
        DefCfaExpression { expression } => format!("dce:{}", ex_bytes(sec, expression)),
        Undefined { register } => format!("u:{}", register.0),
        SameValue { register } => format!("sv:{}", register.0),
        Offset { register, factored_offset } => format!("o:{},{}", register.0, factored_offset),
        OffsetExtendedSf { register, factored_offset } => format!("os:{},{}", register.0, factored_offset),
        ValOffset { register, factored_offset } => format!("vo:{},{}", register.0, factored_offset),
        ValOffsetSf { register, factored_offset } => format!("vos:{},{}", register.0, factored_offset),
        Register { dest_register, src_register } => format!("r:{},{}", dest_register.0, src_register.0),
        Expression { register, expression } => format!("e:{},{}", register.0, ex_bytes(sec, expression)),
        ValExpression { register, expression } => format!("ve:{},{}", register.0, ex_bytes(sec, expression)),
        Restore { register } => format!("rs:{}", register.0),
        RememberState => "rem".into(),
        RestoreState => "rst".into(),
        ArgsSize { size } => format!("as:{size}"),
        NegateRaState => "neg".into(),
        Nop => "nop".into(),
        #[allow(unreachable_patterns)]
        other => format!("?{:?}", other).replace(' ', ""),
    }
}

fn list_s(xs: &[String], sep: &str) -> String {
    if xs.is_empty() { "-".into() } else { xs.join(sep) }
}

// ---------------------------------------------------------------- the oracle's own vocabulary

#[derive(Clone, Debug, PartialEq)]
enum OI {
    SetLoc(u64),
    Adv(u64),
    DefCfa(u16, u64),
    DefCfaSf(u16, i64),
    DefCfaReg(u16),
    DefCfaOff(u64),
    DefCfaOffSf(i64),
    DefCfaExpr(Vec<u8>),
    Undefined(u16),
    SameValue(u16),
    Offset(u16, u64),
    OffsetSf(u16, i64),
    ValOffset(u16, u64),
    ValOffsetSf(u16, i64),
    Register(u16, u16),
    Expr(u16, Vec<u8>),
    ValExpr(u16, Vec<u8>),
    Restore(u16),
    Remember,
    RestoreState,
    ArgsSize(u64),
    NegRa,
    Nop,
}

impl OI {
    fn text(&self) -> String {
        use OI::*;
        match self {
            SetLoc(a) => format!("sl:{a}"),
            Adv(d) => format!("al:{d}"),
            DefCfa(r, o) => format!("dc:{r},{o}"),
            DefCfaSf(r, o) => format!("dcs:{r},{o}"),
            DefCfaReg(r) => format!("dcr:{r}"),
            DefCfaOff(o) => format!("dco:{o}"),
            DefCfaOffSf(o) => format!("dcos:{o}"),
            DefCfaExpr(e) => format!("dce:{}", hex(e)),
            Undefined(r) => format!("u:{r}"),
            SameValue(r) => format!("sv:{r}"),
            Offset(r, o) => format!("o:{r},{o}"),
            OffsetSf(r, o) => format!("os:{r},{o}"),
            ValOffset(r, o) => format!("vo:{r},{o}"),
            ValOffsetSf(r, o) => format!("vos:{r},{o}"),
            Register(d, s) => format!("r:{d},{s}"),
            Expr(r, e) => format!("e:{r},{}", hex(e)),
            ValExpr(r, e) => format!("ve:{r},{}", hex(e)),
            Restore(r) => format!("rs:{r}"),
            Remember => "rem".into(),
            RestoreState => "rst".into(),
            ArgsSize(n) => format!("as:{n}"),
            NegRa => "neg".into(),
            Nop => "nop".into(),
        }
    }
}

/// how the oracle's decoder stopped
#[derive(Clone, Debug, PartialEq)]
enum OEnd {
    /// all bytes consumed
    Clean,
    /// the stream is malformed at this point by the letter of the standard + gimli's documented
    /// limits (truncated operand, unknown opcode, LEB128 that does not fit, register > u16)
    Malformed,
    /// the oracle does not know (exotic set_loc encodings …): no prediction from here on
    Unknown,
}

struct Cur<'a> {
    b: &'a [u8],
    p: usize,
}
impl<'a> Cur<'a> {
    fn u8(&mut self) -> Option<u8> {
        let v = *self.b.get(self.p)?;
        self.p += 1;
        Some(v)
    }
    fn fixed(&mut self, n: usize, big: bool) -> Option<u64> {
        let s = self.b.get(self.p..self.p + n)?;
        self.p += n;
        let mut v = 0u64;
        if big {
            for x in s {
                v = (v << 8) | *x as u64;
            }
        } else {
            for x in s.iter().rev() {
                v = (v << 8) | *x as u64;
            }
        }
        Some(v)
    }
    /// mathematical ULEB128; `None` if truncated or the value needs more than 64 bits / 10 bytes
    fn uleb(&mut self) -> Option<u64> {
        let mut v: u128 = 0;
        for i in 0..10 {
            let b = self.u8()?;
            v |= ((b & 0x7f) as u128) << (7 * i);
            if b & 0x80 == 0 {
                return if v >> 64 == 0 { Some(v as u64) } else { None };
            }
        }
        None
    }
    fn sleb(&mut self) -> Option<i64> {
        let mut v: i128 = 0;
        for i in 0..10 {
            let b = self.u8()?;
            v |= ((b & 0x7f) as i128) << (7 * i);
            if b & 0x80 == 0 {
                if b & 0x40 != 0 {
                    v -= 1i128 << (7 * (i + 1));
                }
                return if v >= i64::MIN as i128 && v <= i64::MAX as i128 { Some(v as i64) } else { None };
            }
        }
        None
    }
    fn reg(&mut self) -> Option<u16> {
        let v = self.uleb()?;
        if v <= 0xffff { Some(v as u16) } else { None }
    }
    fn block(&mut self) -> Option<Vec<u8>> {
        let n = self.uleb()?;
        let n = usize::try_from(n).ok()?;
        let s = self.b.get(self.p..self.p.checked_add(n)?)?;
        self.p += n;
        Some(s.to_vec())
    }
}

fn mask_of(asz: u8) -> Option<u64> {
    match asz {
        1..=7 => Some((1u64 << (8 * asz as u32)) - 1),
        8 => Some(u64::MAX),
        _ => None,
    }
}

/// the oracle's decoder. `enc`: the FDE pointer encoding for set_loc (`None` in a CIE / without
/// augmentation)
fn odecode(bs: &[u8], big: bool, asz: u8, aarch64: bool, enc: Option<u8>) -> (Vec<OI>, OEnd) {
    let mut c = Cur { b: bs, p: 0 };
    let mut out = vec![];
    while c.p < bs.len() {
        let op = bs[c.p];
        c.p += 1;
        let lo = (op & 0x3f) as u16;
        let i: Option<OI> = (|| {
            Some(match op >> 6 {
                1 => OI::Adv(lo as u64),
                2 => OI::Offset(lo, c.uleb()?),
                3 => OI::Restore(lo),
                _ => match op {
                    0x00 => OI::Nop,
                    0x01 => return None, // handled below
                    0x02 => OI::Adv(c.fixed(1, big)?),
                    0x03 => OI::Adv(c.fixed(2, big)?),
                    0x04 => OI::Adv(c.fixed(4, big)?),
                    0x05 => OI::Offset(c.reg()?, c.uleb()?),
                    0x06 => OI::Restore(c.reg()?),
                    0x07 => OI::Undefined(c.reg()?),
                    0x08 => OI::SameValue(c.reg()?),
                    0x09 => OI::Register(c.reg()?, c.reg()?),
                    0x0a => OI::Remember,
                    0x0b => OI::RestoreState,
                    0x0c => OI::DefCfa(c.reg()?, c.uleb()?),
                    0x0d => OI::DefCfaReg(c.reg()?),
                    0x0e => OI::DefCfaOff(c.uleb()?),
                    0x0f => OI::DefCfaExpr(c.block()?),
                    0x10 => OI::Expr(c.reg()?, c.block()?),
                    0x11 => OI::OffsetSf(c.reg()?, c.sleb()?),
                    0x12 => OI::DefCfaSf(c.reg()?, c.sleb()?),
                    0x13 => OI::DefCfaOffSf(c.sleb()?),
                    0x14 => OI::ValOffset(c.reg()?, c.uleb()?),
                    0x15 => OI::ValOffsetSf(c.reg()?, c.sleb()?),
                    0x16 => OI::ValExpr(c.reg()?, c.block()?),
                    0x2e => OI::ArgsSize(c.uleb()?),
                    0x2d if aarch64 => OI::NegRa,
                    _ => return None,
                },
            })
        })();
        if op == 0x01 {
            // set_loc
            let Some(mask) = mask_of(asz) else { return (out, OEnd::Unknown) };
            let plain = matches!(asz, 1 | 2 | 4 | 8);
            let v: Option<u64> = match enc {
                None if plain => c.fixed(asz as usize, big),
                None => return (out, OEnd::Malformed), // unsupported address size
                Some(e) if e & 0xf0 == 0 => match e & 0x0f {
                    0 if plain => c.fixed(asz as usize, big),
                    0 => return (out, OEnd::Malformed),
                    1 => c.uleb(),
                    2 => c.fixed(2, big),
                    3 => c.fixed(4, big),
                    4 => c.fixed(8, big),
                    9 => c.sleb().map(|x| x as u64),
                    10 => c.fixed(2, big).map(|x| x as u16 as i16 as i64 as u64),
                    11 => c.fixed(4, big).map(|x| x as u32 as i32 as i64 as u64),
                    12 => c.fixed(8, big),
                    _ => return (out, OEnd::Unknown),
                },
                Some(_) => return (out, OEnd::Unknown),
            };
            match v {
                Some(a) => out.push(OI::SetLoc(a & mask)),
                None => return (out, OEnd::Malformed),
            }
            continue;
        }
        match i {
            Some(i) => out.push(i),
            None => return (out, OEnd::Malformed),
        }
    }
    (out, OEnd::Clean)
}

#[derive(Clone, Debug, PartialEq)]
enum ORule {
    U,
    S,
    O(i64),
    V(i64),
    R(u16),
    E(Vec<u8>),
    X(Vec<u8>),
    C(u64),
}
impl ORule {
    fn text(&self) -> String {
        match self {
            ORule::U => "U".into(),
            ORule::S => "S".into(),
            ORule::O(n) => format!("O{n}"),
            ORule::V(n) => format!("V{n}"),
            ORule::R(r) => format!("R{r}"),
            ORule::E(e) => format!("E{}", hex(e)),
            ORule::X(e) => format!("X{}", hex(e)),
            ORule::C(v) => format!("C{v}"),
        }
    }
}
#[derive(Clone, Debug, PartialEq)]
enum OCfa {
    RO(u16, i64),
    Ex(Vec<u8>),
}
#[derive(Clone, Debug, PartialEq)]
struct ORules {
    cfa: OCfa,
    regs: BTreeMap<u16, ORule>,
    args: u64,
}
impl ORules {
    fn row_text(&self, start: u64, end: u64) -> String {
        let cfa = match &self.cfa {
            OCfa::RO(r, o) => format!("ro:{r}:{o}"),
            OCfa::Ex(e) => format!("ex:{}", hex(e)),
        };
        let rules: Vec<String> = self.regs.iter().map(|(k, v)| format!("{k}={}", v.text())).collect();
        format!("{start},{end},{cfa},{},{}", self.args, list_s(&rules, ";"))
    }
}

/// two's complement product of a factored operand and the data alignment factor
fn factored(op: i128, daf: i64) -> i64 {
    (op * daf as i128).rem_euclid(1i128 << 64) as u64 as i64
}

#[derive(Debug, PartialEq)]
enum OOut {
    Ok,
    Err(&'static str),
    /// some error, the oracle does not say which (malformed byte stream)
    AnyErr,
    /// no prediction after the rows listed
    Unknown,
}

struct OMachine {
    caf: u64,
    daf: i64,
    mask: u64,
    rows_cap: Option<usize>,
    rules_cap: Option<usize>,
    cur: ORules,
    stack: Vec<ORules>,
    init: Option<BTreeMap<u16, ORule>>,
    loc: u64,
}

impl OMachine {
    /// rows the implementation has to hold for the spec-level state
    fn depth(&self) -> usize {
        self.stack.len() + 1 + if self.init.as_ref().map_or(false, |m| m.len() >= 2) { 1 } else { 0 }
    }
    fn set(&mut self, r: u16, rule: ORule) -> Result<(), &'static str> {
        self.cur.regs.insert(r, rule);
        if self.rules_cap.map_or(false, |n| self.cur.regs.len() > n) {
            return Err("TooManyRegisterRules");
        }
        Ok(())
    }
    /// `Ok(Some(new location))` when the instruction completes a row
    fn step(&mut self, i: &OI) -> Result<Option<u64>, &'static str> {
        match i {
            OI::SetLoc(a) => {
                if *a < self.loc {
                    return Err("InvalidCfiSetLoc");
                }
                return Ok(Some(*a));
            }
            OI::Adv(d) => {
                let delta = (*d as u128 * self.caf as u128) & u64::MAX as u128;
                let n = self.loc as u128 + delta;
                if n > self.mask as u128 {
                    return Err("AddressOverflow");
                }
                return Ok(Some(n as u64));
            }
            OI::DefCfa(r, o) => self.cur.cfa = OCfa::RO(*r, *o as i64),
            OI::DefCfaSf(r, o) => self.cur.cfa = OCfa::RO(*r, factored(*o as i128, self.daf)),
            OI::DefCfaReg(r) => match &mut self.cur.cfa {
                OCfa::RO(reg, _) => *reg = *r,
                OCfa::Ex(_) => return Err("CfiInstructionInInvalidContext"),
            },
            OI::DefCfaOff(o) => match &mut self.cur.cfa {
                OCfa::RO(_, off) => *off = *o as i64,
                OCfa::Ex(_) => return Err("CfiInstructionInInvalidContext"),
            },
            OI::DefCfaOffSf(o) => {
                let v = factored(*o as i128, self.daf);
                match &mut self.cur.cfa {
                    OCfa::RO(_, off) => *off = v,
                    OCfa::Ex(_) => return Err("CfiInstructionInInvalidContext"),
                }
            }
            OI::DefCfaExpr(e) => self.cur.cfa = OCfa::Ex(e.clone()),
            OI::Undefined(r) => self.set(*r, ORule::U)?,
            OI::SameValue(r) => self.set(*r, ORule::S)?,
            OI::Offset(r, o) => self.set(*r, ORule::O(factored(*o as i128, self.daf)))?,
            OI::OffsetSf(r, o) => self.set(*r, ORule::O(factored(*o as i128, self.daf)))?,
            OI::ValOffset(r, o) => self.set(*r, ORule::V(factored(*o as i128, self.daf)))?,
            OI::ValOffsetSf(r, o) => self.set(*r, ORule::V(factored(*o as i128, self.daf)))?,
            OI::Register(d, s) => self.set(*d, ORule::R(*s))?,
            OI::Expr(r, e) => self.set(*r, ORule::E(e.clone()))?,
            OI::ValExpr(r, e) => self.set(*r, ORule::X(e.clone()))?,
            OI::Restore(r) => {
                let Some(init) = &self.init else { return Err("CfiInstructionInInvalidContext") };
                match init.get(r).cloned() {
                    Some(rule) => self.set(*r, rule)?,
                    None => {
                        self.cur.regs.remove(r);
                    }
                }
            }
            OI::Remember => {
                self.stack.push(self.cur.clone());
                if self.rows_cap.map_or(false, |n| self.depth() > n) {
                    return Err("StackFull");
                }
            }
            OI::RestoreState => match self.stack.pop() {
                Some(s) => self.cur = s,
                None => return Err("PopWithEmptyStack"),
            },
            OI::ArgsSize(n) => self.cur.args = *n,
            OI::NegRa => {
                let v = match self.cur.regs.get(&34) {
                    None => 0,
                    Some(ORule::C(v)) => *v,
                    Some(_) => return Err("CfiInstructionInInvalidContext"),
                };
                self.set(34, ORule::C(v ^ 1))?
            }
            OI::Nop => {}
        }
        Ok(None)
    }
}

/// the oracle only speaks when the address bytes of the request are exactly the FDE's two
/// address fields (otherwise part of the "instruction" bytes are consumed by the entry parser)
fn addrs_exact(q: &Req) -> bool {
    let mut c = Cur { b: &q.addrs, p: 0 };
    let fmt = if q.eh { q.enc & 0x0f } else { 0 };
    for _ in 0..2 {
        let ok = match fmt {
            0 => c.fixed(q.asz as usize, q.big).is_some() && matches!(q.asz, 1 | 2 | 4 | 8),
            1 => c.uleb().is_some(),
            9 => c.sleb().is_some(),
            2 | 10 => c.fixed(2, q.big).is_some(),
            3 | 11 => c.fixed(4, q.big).is_some(),
            4 | 12 => c.fixed(8, q.big).is_some(),
            _ => false,
        };
        if !ok {
            return false;
        }
    }
    c.p == q.addrs.len()
}

/// predicted table: rows as text, and the outcome
fn oracle_table(q: &Req, initial: u64, end: u64, rows_cap: Option<usize>, rules_cap: Option<usize>) -> (Vec<String>, OOut) {
    let Some(mask) = mask_of(q.asz) else { return (vec![], OOut::Unknown) };
    if rows_cap == Some(0) || !addrs_exact(q) {
        return (vec![], OOut::Unknown);
    }
    let (cie, cie_end) = odecode(&q.cie, q.big, q.asz, q.aarch64, None);
    let (fde, fde_end) = odecode(&q.fde, q.big, q.asz, q.aarch64, if q.eh { Some(q.enc) } else { None });
    let mut m = OMachine {
        caf: q.caf,
        daf: q.daf,
        mask,
        rows_cap,
        rules_cap,
        cur: ORules { cfa: OCfa::RO(0, 0), regs: BTreeMap::new(), args: 0 },
        stack: vec![],
        init: None,
        loc: 0,
    };
    // the CIE's initial instructions; rows they create are not part of the FDE's table
    for i in &cie {
        match m.step(i) {
            Ok(Some(n)) => m.loc = n,
            Ok(None) => {}
            Err(e) => return (vec![], OOut::Err(e)),
        }
    }
    match cie_end {
        OEnd::Clean => {}
        OEnd::Malformed => return (vec![], OOut::AnyErr),
        OEnd::Unknown => return (vec![], OOut::Unknown),
    }
    m.init = Some(m.cur.regs.clone());
    if rows_cap.map_or(false, |n| m.depth() > n) {
        return (vec![], OOut::Err("StackFull"));
    }
    m.loc = initial;
    let mut rows = vec![];
    for i in &fde {
        match m.step(i) {
            Ok(Some(n)) => {
                rows.push(m.cur.row_text(m.loc, n));
                m.loc = n;
            }
            Ok(None) => {}
            Err(e) => return (rows, OOut::Err(e)),
        }
    }
    match fde_end {
        OEnd::Clean => {}
        OEnd::Malformed => return (rows, OOut::AnyErr),
        OEnd::Unknown => return (rows, OOut::Unknown),
    }
    rows.push(m.cur.row_text(m.loc, end));
    (rows, OOut::Ok)
}

// ---------------------------------------------------------------- running the real crate

fn rule_s(r: &RegisterRule<usize>, sec: &[u8]) -> String {
    match r {
        RegisterRule::Undefined => "U".into(),
        RegisterRule::SameValue => "S".into(),
        RegisterRule::Offset(n) => format!("O{n}"),
        RegisterRule::ValOffset(n) => format!("V{n}"),
        RegisterRule::Register(r) => format!("R{}", r.0),
        RegisterRule::Expression(e) => format!("E{}", ex_bytes(sec, e)),
        RegisterRule::ValExpression(e) => format!("X{}", ex_bytes(sec, e)),
        RegisterRule::Architectural => "A".into(),
        RegisterRule::Constant(v) => format!("C{v}"),
        #[allow(unreachable_patterns)]
        other => format!("?{:?}", other).replace(' ', ""),
    }
}

struct RowOut {
    start: u64,
    end: u64,
    text: String,
    /// `register(r)` disagreed with `registers()`, or a register is listed twice
    iter_problem: Option<String>,
}

fn snapshot<S: UnwindContextStorage<usize>>(row: &UnwindTableRow<usize, S>, sec: &[u8]) -> RowOut {
    let cfa = match row.cfa() {
        CfaRule::RegisterAndOffset { register, offset } => format!("ro:{}:{}", register.0, offset),
        CfaRule::Expression(e) => format!("ex:{}", ex_bytes(sec, e)),
    };
    let mut listed: Vec<(u16, String)> = row.registers().map(|(r, rule)| (r.0, rule_s(rule, sec))).collect();
    listed.sort();
    let mut iter_problem = None;
    for w in listed.windows(2) {
        if w[0].0 == w[1].0 {
            iter_problem = Some(format!("register {} listed twice", w[0].0));
        }
    }
    // `register(r)` for every r in a window and for every listed register
    let mut probe: Vec<u16> = (0..48).collect();
    probe.extend(listed.iter().map(|x| x.0));
    probe.extend([0xffffu16, 0x100, 191, 192, 193]);
    for r in probe {
        let by_get = row.register(Register(r)).map(|x| rule_s(&x, sec));
        let by_iter = listed.iter().find(|x| x.0 == r).map(|x| x.1.clone());
        if by_get != by_iter {
            iter_problem = Some(format!("register({r})={by_get:?} but registers() has {by_iter:?}"));
        }
    }
    let rules: Vec<String> = listed.iter().map(|(k, v)| format!("{k}={v}")).collect();
    RowOut {
        start: row.start_address(),
        end: row.end_address(),
        text: format!("{},{},{},{},{}", row.start_address(), row.end_address(), cfa, row.saved_args_size(), list_s(&rules, ";")),
        iter_problem,
    }
}

/// the "dirtying" programs run on a context before it is reused (all `.debug_frame`, little endian,
/// 8-byte addresses, caf 1, daf -8; FDE range [0x1000, 0x1080)): (CIE instructions, FDE instructions)
const DIRTY_POOL: &[(&[u8], &[u8])] = &[
    // 0: GNU_args_size in the bottom row (no initial rule: the FDE is evaluated in stack[0])
    (&[], &[0x2e, 0x10, 0x41, 0x0e, 0x20]),
    // 1: one initial rule, args_size in CIE and FDE, a CFA expression left behind
    (&[0x2e, 0x05, 0x81, 0x01], &[0x41, 0x2e, 0x07, 0x0f, 0x01, 0x50, 0x42]),
    // 2: two initial rules (saved row at stack[0]) with args_size in the CIE
    (&[0x81, 0x01, 0x82, 0x02, 0x2e, 0x09], &[0x41, 0x07, 0x03, 0x2e, 0x0b]),
    // 3: remember_state after args_size, left unbalanced (the value is parked in stack[0])
    (&[], &[0x2e, 0x0d, 0x0a, 0x0a, 0x41, 0x2e, 0x01, 0x0c, 0x09, 0x63]),
    // 4: fails in the middle of the CIE (restore is invalid there) after args_size and a rule
    (&[0x2e, 0x03, 0x07, 0x05, 0xc1], &[0x41]),
    // 5: fails in the middle of the FDE (def_cfa_offset on an expression CFA) after a row
    (&[0x81, 0x01], &[0x2e, 0x11, 0x41, 0x0f, 0x01, 0x50, 0x0e, 0x08]),
    // 6: StackFull (six remember_state) with args_size and rules on every row
    (&[0x82, 0x03], &[0x2e, 0x13, 0x81, 0x04, 0x0a, 0x0a, 0x0a, 0x0a, 0x0a, 0x0a, 0x41]),
    // 7: many register rules (TooManyRegisterRules on the small storages), args_size, odd CFA
    (
        &[0x81, 0x01, 0x82, 0x01, 0x83, 0x01, 0x84, 0x01, 0x85, 0x01, 0x86, 0x01, 0x87, 0x01, 0x88, 0x01, 0x89, 0x01, 0x8a, 0x01],
        &[0x2e, 0x17, 0x0c, 0x09, 0x63, 0x8b, 0x01, 0x8c, 0x01, 0x8d, 0x01, 0x8e, 0x01, 0x8f, 0x01, 0x90, 0x01, 0x91, 0x01, 0x92, 0x01, 0x41, 0x2d],
    ),
];

/// run dirtying program `which` on `ctx`: all its rows through `next_row`, or (odd `via`) a single
/// `unwind_info_for_address` that stops at the first row
fn dirty_ctx<St: UnwindContextStorage<usize>>(ctx: &mut UnwindContext<usize, St>, which: usize, via: u64) {
    let (cie, fde) = DIRTY_POOL[which % DIRTY_POOL.len()];
    let q = Req {
        eh: false,
        big: false,
        asz: 8,
        enc: 0,
        aarch64: true,
        bases: [None, None, None],
        caf: 1,
        daf: -8,
        cie: cie.to_vec(),
        addrs: vec![0, 0x10, 0, 0, 0, 0, 0, 0, 0x80, 0, 0, 0, 0, 0, 0, 0],
        fde: fde.to_vec(),
    };
    let (sec, fde_off) = q.build();
    let mut s = DebugFrame::new(&sec, RunTimeEndian::Little);
    s.set_vendor(Vendor::AArch64);
    let bases = BaseAddresses::default();
    let Ok(f) = s.fde_from_offset(&bases, gimli::DebugFrameOffset(fde_off), DebugFrame::cie_from_offset) else { return };
    if via % 2 == 1 {
        let _ = f.unwind_info_for_address(&s, &bases, ctx, 0x1000 + (via >> 1) % 4);
        return;
    }
    if let Ok(mut t) = f.rows(&s, &bases, ctx) {
        for _ in 0..64 {
            match t.next_row() {
                Ok(Some(_)) => {}
                _ => break,
            }
        }
    }
}

/// a context for the next evaluation: fresh (`dirty = None`) or used immediately before for one
/// or two dirtying programs chosen by the seed
fn make_ctx<St: UnwindContextStorage<usize>>(dirty: Option<u64>) -> Box<UnwindContext<usize, St>> {
    let mut ctx: Box<UnwindContext<usize, St>> = Box::new(UnwindContext::new_in());
    if let Some(seed) = dirty {
        dirty_ctx(&mut ctx, (seed % 8) as usize, seed >> 3);
        if (seed >> 6) % 2 == 1 {
            dirty_ctx(&mut ctx, ((seed >> 7) % 8) as usize, seed >> 10);
        }
    }
    ctx
}

fn rows_with<'a, Sec, St>(section: &Sec, bases: &BaseAddresses, fde: &FrameDescriptionEntry<Rd<'a>>, sec: &[u8], cap: usize, dirty: Option<u64>) -> (Vec<RowOut>, Result<(), gimli::Error>)
where
    Sec: UnwindSection<Rd<'a>>,
    St: UnwindContextStorage<usize>,
{
    let mut ctx: Box<UnwindContext<usize, St>> = make_ctx(dirty);
    let mut rows = vec![];
    let mut table = match fde.rows(section, bases, &mut ctx) {
        Ok(t) => t,
        Err(e) => return (rows, Err(e)),
    };
    loop {
        match table.next_row() {
            Ok(Some(row)) => {
                let mut snap = snapshot(row, sec);
                // `contains` is `start <= a < end`
                for a in [row.start_address().wrapping_sub(1), row.start_address(), row.end_address().wrapping_sub(1), row.end_address()] {
                    if row.contains(a) != (row.start_address() <= a && a < row.end_address()) {
                        snap.iter_problem = Some(format!("contains({a}) is wrong for [{}, {})", row.start_address(), row.end_address()));
                    }
                }
                rows.push(snap)
            }
            Ok(None) => {
                // the table is finished: asking again must not produce another row
                if !matches!(table.next_row(), Ok(None)) {
                    if let Some(r) = rows.last_mut() {
                        r.iter_problem = Some("next_row yields again after Ok(None)".into());
                    }
                }
                return (rows, Ok(()));
            }
            Err(e) => return (rows, Err(e)),
        }
        if rows.len() > cap {
            return (rows, Err(gimli::Error::TooManyIterations));
        }
    }
}

/// `FrameDescriptionEntry::unwind_info_for_address` must return the first row of the table that
/// contains the address (or the error the table runs into before, or `NoUnwindInfoForAddress`)
fn lookup_with<'a, Sec, St>(section: &Sec, bases: &BaseAddresses, fde: &FrameDescriptionEntry<Rd<'a>>, sec: &[u8], rows: &[RowOut], res: &Result<(), gimli::Error>, seed: u64) -> Option<String>
where
    Sec: UnwindSection<Rd<'a>>,
    St: UnwindContextStorage<usize>,
{
    let mut probes: Vec<u64> = vec![fde.initial_address().wrapping_sub(1), fde.initial_address()];
    for r in rows.iter().take(3) {
        probes.push(r.end.wrapping_sub(1));
        probes.push(r.end);
    }
    if let Some(r) = rows.last() {
        probes.push(r.start);
        probes.push(r.end);
    }
    for (k, a) in probes.into_iter().enumerate() {
        // every other probe on a context that was just used for something else
        let mut ctx: Box<UnwindContext<usize, St>> = make_ctx(if k % 2 == 1 { Some(seed.rotate_left(k as u32 * 7)) } else { None });
        let got = fde.unwind_info_for_address(section, bases, &mut ctx, a).map(|r| snapshot(r, sec).text);
        let want: Result<String, String> = match rows.iter().find(|r| r.start <= a && a < r.end) {
            Some(r) => Ok(r.text.clone()),
            None => Err(match res {
                Err(e) => rerr(e),
                Ok(()) => "NoUnwindInfoForAddress".to_string(),
            }),
        };
        let got_s = got.map_err(|e| rerr(&e));
        if got_s != want {
            return Some(format!("lookup unwind_info_for_address({a}) = {got_s:?}, rows say {want:?}").replace(' ', "_").replacen('_', " ", 1));
        }
    }
    None
}

fn rows_storage<'a, Sec>(storage: &str, section: &Sec, bases: &BaseAddresses, fde: &FrameDescriptionEntry<Rd<'a>>, sec: &[u8], cap: usize, dirty: Option<u64>) -> Option<(Vec<RowOut>, Result<(), gimli::Error>)>
where
    Sec: UnwindSection<Rd<'a>>,
{
    Some(match storage {
        "heap" => rows_with::<Sec, StoreOnHeap>(section, bases, fde, sec, cap, dirty),
        "vec" => rows_with::<Sec, StVec>(section, bases, fde, sec, cap, dirty),
        "a4x192" => rows_with::<Sec, St<4, 192>>(section, bases, fde, sec, cap, dirty),
        "a5x193" => rows_with::<Sec, StBox<5, 193>>(section, bases, fde, sec, cap, dirty),
        "a1x1" => rows_with::<Sec, St<1, 1>>(section, bases, fde, sec, cap, dirty),
        "a2x2" => rows_with::<Sec, St<2, 2>>(section, bases, fde, sec, cap, dirty),
        "a2x1" => rows_with::<Sec, St<2, 1>>(section, bases, fde, sec, cap, dirty),
        "a3x1" => rows_with::<Sec, StBox<3, 1>>(section, bases, fde, sec, cap, dirty),
        "a3x3" => rows_with::<Sec, St<3, 3>>(section, bases, fde, sec, cap, dirty),
        "a8x8" => rows_with::<Sec, St<8, 8>>(section, bases, fde, sec, cap, dirty),
        "a1x0" => rows_with::<Sec, St<1, 0>>(section, bases, fde, sec, cap, dirty),
        "a0x4" => rows_with::<Sec, St<0, 4>>(section, bases, fde, sec, cap, dirty),
        _ => return None,
    })
}

/// the reply and the oracle verdict for one unwind request
fn unwind_on<'a, Sec>(q: &Req, storage: &str, section: &Sec, secbytes: &'a [u8], fde_off: usize, do_lookup: bool) -> Option<(String, Option<String>)>
where
    Sec: UnwindSection<Rd<'a>>,
{
    let bases = q.base_addresses();
    let fde = match section.fde_from_offset(&bases, Sec::Offset::from(fde_off), Sec::cie_from_offset) {
        Ok(f) => f,
        Err(e) => return Some((format!("err {} -", rerr(&e)), None)),
    };
    let cap = q.cie.len() + q.fde.len() + 4;
    let (rows, res) = rows_storage(storage, section, &bases, &fde, secbytes, cap, None)?;
    let texts: Vec<String> = rows.iter().map(|r| r.text.clone()).collect();
    // the case's seed: a hash of its instruction bytes and configuration
    let seed = q.cie.iter().chain(q.fde.iter()).chain(q.addrs.iter()).fold(DIGEST_INIT ^ q.caf ^ (q.daf as u64).rotate_left(17), |h, b| digest_step(h, *b as u64));
    // the same FDE on a context that was used immediately before for one or two other programs
    // (C20 proves `unwind_reused_eq_fresh` for the Model): rows and outcome must not change
    let reuse_problem = if caps(storage)?.0 != Some(0) && !matches!(res, Err(gimli::Error::TooManyIterations)) {
        let (rows2, res2) = rows_storage(storage, section, &bases, &fde, secbytes, cap, Some(seed))?;
        let texts2: Vec<String> = rows2.iter().map(|r| r.text.clone()).collect();
        let out = |r: &Result<(), gimli::Error>| match r {
            Ok(()) => "ok".to_string(),
            Err(e) => rerr(e),
        };
        if texts2 != texts || out(&res2) != out(&res) {
            Some(format!(
                "reused-context-differs after dirtying {}{}: fresh {} {} reused {} {}",
                seed % 8,
                if (seed >> 6) % 2 == 1 { format!("+{}", (seed >> 7) % 8) } else { String::new() },
                out(&res),
                list_s(&texts, "|"),
                out(&res2),
                list_s(&texts2, "|")
            ))
        } else {
            rows2.iter().find_map(|r| r.iter_problem.clone()).map(|p| format!("row-api (reused context) {p}"))
        }
    } else {
        None
    };
    // (no lookups when the table itself did not terminate: gimli's lookup loop would not either)
    let lookup_problem = if do_lookup && !matches!(res, Err(gimli::Error::TooManyIterations)) {
        match storage {
            "heap" => lookup_with::<Sec, StoreOnHeap>(section, &bases, &fde, secbytes, &rows, &res, seed),
            "vec" => lookup_with::<Sec, StVec>(section, &bases, &fde, secbytes, &rows, &res, seed),
            "a8x8" => lookup_with::<Sec, St<8, 8>>(section, &bases, &fde, secbytes, &rows, &res, seed),
            "a2x2" => lookup_with::<Sec, St<2, 2>>(section, &bases, &fde, secbytes, &rows, &res, seed),
            _ => None,
        }
    } else {
        None
    };
    let reply = match &res {
        Ok(()) => format!("ok {}", list_s(&texts, "|")),
        Err(e) => format!("err {} {}", rerr(e), list_s(&texts, "|")),
    };
    // ---- direct oracle
    let mut verdict: Option<String> = None;
    if let Some(p) = rows.iter().find_map(|r| r.iter_problem.clone()) {
        verdict = Some(format!("row-api {p}"));
    }
    if verdict.is_none() {
        verdict = reuse_problem;
    }
    if verdict.is_none() {
        verdict = lookup_problem;
    }
    // contiguity (property text: contiguous, non-decreasing, ends at the FDE's end address)
    if verdict.is_none() {
        let mut prev_end = fde.initial_address();
        for (k, r) in rows.iter().enumerate() {
            let last = res.is_ok() && k + 1 == rows.len();
            if r.start != prev_end || (!last && r.start > r.end) {
                verdict = Some(format!("contiguous row {k}: start {} end {} after {}", r.start, r.end, prev_end));
                break;
            }
            prev_end = r.end;
        }
        // the FDE's end address, computed here: (initial + length) in the CIE's address size
        if let Some(mask) = mask_of(q.asz) {
            let end = fde.initial_address().wrapping_add(fde.len()) & mask;
            if res.is_ok() && rows.last().map(|r| r.end) != Some(end) {
                verdict = Some(format!("last-end {:?} != fde end {}", rows.last().map(|r| r.end), end));
            }
        }
    }
    if verdict.is_none() {
        let (rc, nc) = caps(storage)?;
        let end = fde.initial_address().wrapping_add(fde.len()) & mask_of(q.asz).unwrap_or(u64::MAX);
        let (orows, oout) = oracle_table(q, fde.initial_address(), end, rc, nc);
        let n = orows.len().min(texts.len());
        if orows[..n] != texts[..n] {
            let k = (0..n).find(|&k| orows[k] != texts[k]).unwrap();
            verdict = Some(format!("rows row {k}: semantics say {} implementation says {}", orows[k], texts[k]));
        } else {
            let bad = match &oout {
                OOut::Unknown => texts.len() < orows.len() && res.is_ok(),
                OOut::Ok => !(res.is_ok() && texts.len() == orows.len()),
                OOut::Err(name) => !(texts.len() == orows.len() && res.as_ref().err().map(rerr).as_deref() == Some(*name)),
                OOut::AnyErr => !(texts.len() == orows.len() && res.is_err()),
            };
            if bad {
                verdict = Some(format!(
                    "outcome semantics say {:?} after {} rows, implementation says {} after {} rows",
                    oout,
                    orows.len(),
                    match &res {
                        Ok(()) => "ok".to_string(),
                        Err(e) => rerr(e),
                    },
                    texts.len()
                ));
            }
        }
    }
    Some((reply, verdict))
}

fn unwind_req(q: &Req, storage: &str) -> Option<(String, Option<String>)> {
    // the address lookups re-run the table once per probe: do them on a quarter of the requests
    unwind_req_opt(q, storage, (q.cie.len() + q.fde.len()) % 4 == 0)
}

fn unwind_req_opt(q: &Req, storage: &str, do_lookup: bool) -> Option<(String, Option<String>)> {
    let (sec, fde_off) = q.build();
    if q.eh {
        let mut s = EhFrame::new(&sec, q.endian());
        s.set_address_size(q.asz);
        s.set_vendor(q.vendor());
        unwind_on(q, storage, &s, &sec, fde_off, do_lookup)
    } else {
        let mut s = DebugFrame::new(&sec, q.endian());
        s.set_vendor(q.vendor());
        // the CIE is version 4 and carries its own address size; give the section a different one
        s.set_address_size(if q.asz == 8 { 4 } else { 8 });
        unwind_on(q, storage, &s, &sec, fde_off, do_lookup)
    }
}

fn decode_on<'a, Sec>(q: &Req, section: &Sec, secbytes: &'a [u8], fde_off: usize) -> (String, Option<String>)
where
    Sec: UnwindSection<Rd<'a>>,
{
    let bases = q.base_addresses();
    let fde = match section.fde_from_offset(&bases, Sec::Offset::from(fde_off), Sec::cie_from_offset) {
        Ok(f) => f,
        Err(e) => return (format!("err {}", rerr(&e)), None),
    };
    let cap = q.cie.len() + q.fde.len() + 4;
    let mut verdict = None;
    let mut part = |mut it: gimli::CallFrameInstructionIter<'_, Rd<'a>>, bytes: &[u8], enc: Option<u8>| -> String {
        let mut out = vec![];
        let mut tail = "end".to_string();
        loop {
            match it.next() {
                Ok(Some(i)) => out.push(instr_s(&i, secbytes)),
                Ok(None) => break,
                Err(e) => {
                    tail = format!("err:{}", rerr(&e));
                    // after an error the iterator must be finished
                    if !matches!(it.next(), Ok(None)) {
                        verdict = Some("decode iterator yields after an error".to_string());
                    }
                    break;
                }
            }
            if out.len() > cap {
                tail = "err:TooManyIterations".into();
                break;
            }
        }
        // independent decoder
        let (oi, oend) = odecode(bytes, q.big, q.asz, q.aarch64, enc);
        let otext: Vec<String> = oi.iter().map(|i| i.text()).collect();
        let n = otext.len().min(out.len());
        let bad = otext[..n] != out[..n]
            || match oend {
                OEnd::Clean => !(out.len() == otext.len() && tail == "end"),
                OEnd::Malformed => !(out.len() == otext.len() && tail != "end"),
                OEnd::Unknown => out.len() < otext.len(),
            };
        if bad && verdict.is_none() && mask_of(q.asz).is_some() && addrs_exact(q) {
            verdict = Some(format!("decode standard says {} {:?}, implementation says {} {}", list_s(&otext, ";"), oend, list_s(&out, ";"), tail));
        }
        format!("{} {}", list_s(&out, ";"), tail)
    };
    let a = part(fde.cie().instructions(section, &bases), &q.cie, None);
    let b = part(fde.instructions(section, &bases), &q.fde, if q.eh { Some(q.enc) } else { None });
    (format!("ok {a} {b}"), verdict)
}

fn decode_req(q: &Req) -> (String, Option<String>) {
    let (sec, fde_off) = q.build();
    if q.eh {
        let mut s = EhFrame::new(&sec, q.endian());
        s.set_address_size(q.asz);
        s.set_vendor(q.vendor());
        decode_on(q, &s, &sec, fde_off)
    } else {
        let mut s = DebugFrame::new(&sec, q.endian());
        s.set_vendor(q.vendor());
        s.set_address_size(if q.asz == 8 { 4 } else { 8 });
        decode_on(q, &s, &sec, fde_off)
    }
}

// ---------------------------------------------------------------- exhaustive blocks

/// reduced alphabet — the same table as `alphabet` in lean/Gimli/Drv/C06.lean
const ALPHABET: &[&[u8]] = &[
    &[0x0a],             // 0 remember_state
    &[0x0b],             // 1 restore_state
    &[0xc1],             // 2 restore r1
    &[0xc2],             // 3 restore r2
    &[0x81, 0x01],       // 4 offset r1, 1
    &[0x82, 0x02],       // 5 offset r2, 2
    &[0x07, 0x01],       // 6 undefined r1
    &[0x08, 0x02],       // 7 same_value r2
    &[0x0c, 0x07, 0x08], // 8 def_cfa r7, 8
    &[0x0f, 0x01, 0x50], // 9 def_cfa_expression {0x50}
    &[0x0e, 0x10],       // 10 def_cfa_offset 16
    &[0x0d, 0x06],       // 11 def_cfa_register r6
    &[0x41],             // 12 advance_loc 1
    &[0x00],             // 13 nop
    &[0x2e, 0x04],       // 14 GNU_args_size 4
    &[0x2d],             // 15 AARCH64_negate_ra_state
];

fn seq_bytes(ix: &[usize]) -> Vec<u8> {
    ix.iter().flat_map(|i| ALPHABET[*i].iter().copied()).collect()
}

fn blk_case(storage: &str, ix: &[usize], k: usize, lookup: bool) -> Option<(String, Option<String>)> {
    let q = Req {
        eh: false,
        big: false,
        asz: 8,
        enc: 0,
        aarch64: true,
        bases: [None, None, None],
        caf: 1,
        daf: -8,
        cie: seq_bytes(&ix[..k]),
        addrs: vec![0, 0x10, 0, 0, 0, 0, 0, 0, 0x08, 0, 0, 0, 0, 0, 0, 0],
        fde: seq_bytes(&ix[k..]),
    };
    unwind_req_opt(&q, storage, lookup)
}

fn blk_fold(storage: &str, len: usize, pre: &mut Vec<usize>, h: &mut u64, bad: &mut Option<String>, badc: &mut u64) -> Option<()> {
    if pre.len() >= len {
        for k in 0..=len {
            let (reply, verdict) = blk_case(storage, pre, k, false)?;
            *h = digest_step(*h, str_hash(&reply));
            if let Some(v) = verdict {
                *badc += 1;
                let ixs: Vec<String> = pre.iter().map(|x| x.to_string()).collect();
                bad.get_or_insert(format!("seq={}/{k}:{}", ixs.join(","), v.replace(' ', "_")));
            }
        }
        return Some(());
    }
    for s in 0..ALPHABET.len() {
        pre.push(s);
        blk_fold(storage, len, pre, h, bad, badc)?;
        pre.pop();
    }
    Some(())
}

fn ix_list(s: &str) -> Option<Vec<usize>> {
    if s == "-" {
        return Some(vec![]);
    }
    s.split(',').map(|t| t.parse::<usize>().ok().filter(|n| *n < ALPHABET.len())).collect()
}

// ---------------------------------------------------------------- compiler-built corpus vs readelf -wF

const CORPUS_C: &str = r#"
#include <stdarg.h>
extern int ext(int *, int);
extern void ext2(void *);
__attribute__((noinline)) int f1(int a, int b) { int x[64]; x[0] = a; return ext(x, b) + 1; }
int f2(int n) { char *p = __builtin_alloca(n); ext2(p); return n; }
int f3(int a, int b, int c) { if (a) { int big[5000]; big[0] = b; ext(big, c); return big[1]; } return ext(&a, b) * ext(&b, c) + ext(&c, a); }
long f4(long a, long b, long c, long d, long e, long f) { long r = 0; for (long i = 0; i < a; i++) { r += ext((int*)&b, (int)i) * c + d * e - f; if (r > 100) { ext2(&r); return r; } } return r + a * b * c * d * e * f; }
int f5(int n, ...) { va_list ap; va_start(ap, n); int s = 0; for (int i = 0; i < n; i++) s += va_arg(ap, int); va_end(ap); return s; }
double f6(double *v, int n) { double s = 0; for (int i = 0; i < n; i++) { if (v[i] < 0) { ext2(v); continue; } s += v[i] * v[n - 1 - i]; } return s; }
int f7(int a) { switch (a) { case 1: return ext(&a, 1); case 2: { int t[300]; t[0] = a; return ext(t, 2); } case 3: { char *p = __builtin_alloca(a * 16); ext2(p); return 3; } default: return a; } }
struct big { long x[40]; };
struct big f8(struct big b, int k) { b.x[k & 31] += ext((int *)&b, k); if (k > 3) { struct big c = f8(b, k - 1); c.x[0]++; return c; } return b; }
"#;

struct ElfSec {
    addr: u64,
    data: Vec<u8>,
    is64: bool,
}

/// `.eh_frame` of a little-endian ELF file
fn elf_eh_frame(f: &[u8]) -> Option<ElfSec> {
    if f.len() < 0x40 || &f[..4] != b"\x7fELF" || f[5] != 1 {
        return None;
    }
    let is64 = f[4] == 2;
    let rd = |off: usize, n: usize| -> Option<u64> {
        let b = f.get(off..off + n)?;
        let mut v = 0u64;
        for x in b.iter().rev() {
            v = (v << 8) | *x as u64;
        }
        Some(v)
    };
    let (shoff, shentsize, shnum, shstrndx) =
        if is64 { (rd(0x28, 8)?, rd(0x3a, 2)?, rd(0x3c, 2)?, rd(0x3e, 2)?) } else { (rd(0x20, 4)?, rd(0x2e, 2)?, rd(0x30, 2)?, rd(0x32, 2)?) };
    let sh = |i: u64| -> Option<(u64, u64, u64, u64)> {
        let b = (shoff + i * shentsize) as usize;
        if is64 { Some((rd(b, 4)?, rd(b + 0x10, 8)?, rd(b + 0x18, 8)?, rd(b + 0x20, 8)?)) } else { Some((rd(b, 4)?, rd(b + 0x0c, 4)?, rd(b + 0x10, 4)?, rd(b + 0x14, 4)?)) }
    };
    let (_, _, stroff, strsize) = sh(shstrndx)?;
    let strtab = f.get(stroff as usize..(stroff + strsize) as usize)?;
    for i in 0..shnum {
        let (name, addr, off, size) = sh(i)?;
        let n = strtab.get(name as usize..)?;
        let end = n.iter().position(|c| *c == 0)?;
        if &n[..end] == b".eh_frame" {
            return Some(ElfSec { addr, data: f.get(off as usize..(off + size) as usize)?.to_vec(), is64 });
        }
    }
    None
}

struct CorpusFde {
    caf: u64,
    daf: i64,
    cie_instrs: Vec<u8>,
    initial: u64,
    len: u64,
    instrs: Vec<u8>,
}

/// hand parser of a little-endian `.eh_frame` with `zR`-style CIEs and pc-relative / absolute
/// sdata4/udata4/absptr FDE addresses (what gcc and clang emit); anything else is skipped
fn corpus_fdes(sec: &ElfSec) -> Vec<CorpusFde> {
    let d = &sec.data;
    let mut out = vec![];
    let mut pos = 0usize;
    // CIE offset -> (caf, daf, enc, instrs)
    let mut cies: BTreeMap<usize, (u64, i64, u8, Vec<u8>)> = BTreeMap::new();
    while pos + 8 <= d.len() {
        let len = u32::from_le_bytes(d[pos..pos + 4].try_into().unwrap()) as usize;
        if len == 0 || len >= 0xffff_fff0 || pos + 4 + len > d.len() {
            break;
        }
        let body = &d[pos + 4..pos + 4 + len];
        let id = u32::from_le_bytes(body[..4].try_into().unwrap()) as usize;
        let mut c = Cur { b: body, p: 4 };
        if id == 0 {
            (|| {
                let version = c.u8()?;
                let aug_start = c.p;
                while c.u8()? != 0 {}
                let aug = body[aug_start..c.p - 1].to_vec();
                let caf = c.uleb()?;
                let daf = c.sleb()?;
                if version == 1 {
                    c.u8()?;
                } else {
                    c.uleb()?;
                }
                let mut enc = 0u8;
                if aug.first() == Some(&b'z') {
                    let alen = c.uleb()? as usize;
                    let adata = body.get(c.p..c.p + alen)?;
                    c.p += alen;
                    let mut a = Cur { b: adata, p: 0 };
                    for ch in &aug[1..] {
                        match ch {
                            b'R' => enc = a.u8()?,
                            b'L' => {
                                a.u8()?;
                            }
                            b'S' => {}
                            _ => return None, // 'P' etc.: not needed for C
                        }
                    }
                } else if !aug.is_empty() {
                    return None;
                }
                cies.insert(pos, (caf, daf, enc, body[c.p..].to_vec()));
                Some(())
            })();
        } else {
            (|| {
                let cie_off = (pos + 4).checked_sub(id)?;
                let (caf, daf, enc, cie_instrs) = cies.get(&cie_off)?.clone();
                let field = |c: &mut Cur, pcrel: bool| -> Option<u64> {
                    let at = sec.addr + (pos + 4 + c.p) as u64;
                    let v = match enc & 0x0f {
                        0x00 => c.fixed(if sec.is64 { 8 } else { 4 }, false)?,
                        0x03 => c.fixed(4, false)?,
                        0x0b => c.fixed(4, false)? as u32 as i32 as i64 as u64,
                        0x04 | 0x0c => c.fixed(8, false)?,
                        _ => return None,
                    };
                    let mask = if sec.is64 { u64::MAX } else { 0xffff_ffff };
                    Some(if pcrel && enc & 0x70 == 0x10 { at.wrapping_add(v) & mask } else { v & mask })
                };
                if enc & 0x70 != 0 && enc & 0x70 != 0x10 || enc & 0x80 != 0 {
                    return None;
                }
                let initial = field(&mut c, true)?;
                let len = field(&mut c, false)?;
                let alen = c.uleb()? as usize;
                c.p = c.p.checked_add(alen)?;
                let instrs = body.get(c.p..)?.to_vec();
                out.push(CorpusFde { caf, daf, cie_instrs, initial, len, instrs });
                Some(())
            })();
        }
        pos += 4 + len;
    }
    out
}

fn readelf_reg(name: &str, is64: bool) -> Option<u16> {
    const R64: &[&str] = &["rax", "rdx", "rcx", "rbx", "rsi", "rdi", "rbp", "rsp", "r8", "r9", "r10", "r11", "r12", "r13", "r14", "r15", "rip"];
    const R32: &[&str] = &["eax", "ecx", "edx", "ebx", "esp", "ebp", "esi", "edi", "eip"];
    if name == "ra" {
        return Some(if is64 { 16 } else { 8 });
    }
    let t = if is64 { R64 } else { R32 };
    if let Some(i) = t.iter().position(|x| *x == name) {
        return Some(i as u16);
    }
    if is64 {
        if let Some(n) = name.strip_prefix("xmm") {
            return n.parse::<u16>().ok().map(|n| 17 + n);
        }
    }
    name.strip_prefix('r').and_then(|n| n.parse().ok())
}

/// `readelf -wF` tables keyed by (pc_begin, pc_end): rows `loc;cfa;reg=tok,reg=tok`
fn readelf_tables(text: &str, is64: bool) -> BTreeMap<(u64, u64), Option<String>> {
    let mut out = BTreeMap::new();
    let lines: Vec<&str> = text.lines().collect();
    let mut i = 0;
    while i < lines.len() {
        let l = lines[i];
        i += 1;
        let Some(k) = l.find(" FDE ") else { continue };
        let Some(pcs) = l[k..].split("pc=").nth(1) else { continue };
        let mut it = pcs.trim().split("..");
        let (Some(a), Some(b)) = (it.next().and_then(|x| u64::from_str_radix(x, 16).ok()), it.next().and_then(|x| u64::from_str_radix(x.trim(), 16).ok())) else { continue };
        if i >= lines.len() || !lines[i].trim_start().starts_with("LOC") {
            out.insert((a, b), None);
            continue;
        }
        let cols: Vec<&str> = lines[i].split_whitespace().skip(2).collect();
        i += 1;
        let regs: Option<Vec<u16>> = cols.iter().map(|c| readelf_reg(c, is64)).collect();
        let mut rows = vec![];
        let mut ok = regs.is_some();
        while i < lines.len() && !lines[i].trim().is_empty() {
            let t: Vec<&str> = lines[i].split_whitespace().collect();
            i += 1;
            if t.len() != cols.len() + 2 {
                ok = false;
                continue;
            }
            if let Some(regs) = &regs {
                let rs: Vec<String> = regs.iter().zip(&t[2..]).map(|(r, v)| format!("{r}={v}")).collect();
                let cfa = match t[1].rfind(|c| c == '+' || c == '-') {
                    Some(k) if t[1] != "exp" => match readelf_reg(&t[1][..k], is64) {
                        Some(r) => format!("{r}{}", &t[1][k..]),
                        None => {
                            ok = false;
                            continue;
                        }
                    },
                    _ => t[1].to_string(),
                };
                rows.push(format!("{};{};{}", u64::from_str_radix(t[0], 16).unwrap_or(u64::MAX), cfa, list_s(&rs, ",")));
            }
        }
        out.insert((a, b), if ok && !rows.is_empty() { Some(rows.join("|")) } else { None });
    }
    out
}

/// compile the corpus with every available compiler / flag set, return `cfi-corpus` lines
fn corpus_lines(emit: &mut dyn FnMut(String)) {
    use std::process::Command;
    let dir = format!("/var/tmp/gvh-c06-corpus-{}", std::process::id());
    let _ = std::fs::create_dir_all(&dir);
    let src = format!("{dir}/c.c");
    if std::fs::write(&src, CORPUS_C).is_err() {
        return;
    }
    let variants: &[(&str, &[&str])] = &[
        ("gcc", &["-O2"]),
        ("gcc", &["-O0"]),
        ("gcc", &["-Os", "-fno-omit-frame-pointer"]),
        ("gcc", &["-O2", "-m32"]),
        ("gcc", &["-O1", "-m32", "-fno-omit-frame-pointer"]),
        ("clang", &["-O2"]),
        ("clang", &["-O0"]),
        ("clang", &["-Os", "-fno-omit-frame-pointer"]),
    ];
    for (k, (cc, flags)) in variants.iter().enumerate() {
        let so = format!("{dir}/v{k}.so");
        let st = Command::new(cc).args(*flags).args(["-shared", "-fPIC", "-nostdlib", "-fasynchronous-unwind-tables", "-o", &so, &src]).stderr(std::process::Stdio::null()).status();
        if !matches!(st, Ok(s) if s.success()) {
            continue;
        }
        let Ok(bytes) = std::fs::read(&so) else { continue };
        let Some(sec) = elf_eh_frame(&bytes) else { continue };
        let Ok(o) = Command::new("readelf").args(["-wF", &so]).output() else { continue };
        let tables = readelf_tables(&String::from_utf8_lossy(&o.stdout), sec.is64);
        for f in corpus_fdes(&sec) {
            let Some(Some(expected)) = tables.get(&(f.initial, f.initial.wrapping_add(f.len))) else { continue };
            let (asz, enc) = if sec.is64 { (8u8, 4u8) } else { (4u8, 3u8) };
            let mut addrs = vec![];
            enc_value(&mut addrs, enc, f.initial, false, asz);
            enc_value(&mut addrs, enc, f.len, false, asz);
            emit(format!(
                "cfi-corpus release eh le {asz} {enc} default heap -,-,- {} {} {} {} {} {}",
                f.caf,
                f.daf,
                hex(&f.cie_instrs),
                hex(&addrs),
                hex(&f.instrs),
                expected
            ));
        }
    }
    let _ = std::fs::remove_dir_all(&dir);
}

/// compare the implementation's rows (canonical text) with a `readelf -wF` table
fn readelf_verdict(reply: &str, expected: &str) -> Option<String> {
    let mut it = reply.splitn(2, ' ');
    if it.next() != Some("ok") {
        return Some(format!("readelf has a table, implementation says {}", reply.split(' ').take(2).collect::<Vec<_>>().join(" ")));
    }
    let rows: Vec<&str> = it.next().unwrap_or("").split('|').collect();
    let exp: Vec<&str> = expected.split('|').collect();
    // readelf prints one line per row-creating instruction, like gimli; rows of zero length appear in both
    if rows.len() != exp.len() {
        return Some(format!("readelf has {} rows, implementation {}", exp.len(), rows.len()));
    }
    for (k, (r, e)) in rows.iter().zip(&exp).enumerate() {
        let rf: Vec<&str> = r.split(',').collect(); // start,end,cfa,args,rules
        let ef: Vec<&str> = e.split(';').collect(); // loc;cfa;regs
        if rf.len() != 5 || ef.len() != 3 {
            return Some(format!("unparsable row {k}"));
        }
        if rf[0] != ef[0] {
            return Some(format!("row {k} starts at {} but readelf says {}", rf[0], ef[0]));
        }
        // cfa
        let cfa_ok = if let Some(x) = rf[2].strip_prefix("ro:") {
            let mut p = x.split(':');
            let (reg, off) = (p.next().unwrap_or(""), p.next().unwrap_or("").parse::<i64>().unwrap_or(i64::MIN));
            ef[1] == format!("{reg}{}{}", if off < 0 { "-" } else { "+" }, off.unsigned_abs())
        } else {
            ef[1] == "exp"
        };
        if !cfa_ok {
            return Some(format!("row {k} CFA {} but readelf says {}", rf[2], ef[1]));
        }
        // register columns
        let mine: BTreeMap<&str, &str> = if rf[4] == "-" { BTreeMap::new() } else { rf[4].split(';').filter_map(|kv| kv.split_once('=')).collect() };
        let theirs: BTreeMap<&str, &str> = if ef[2] == "-" { BTreeMap::new() } else { ef[2].split(',').filter_map(|kv| kv.split_once('=')).collect() };
        for (reg, tok) in &theirs {
            let m = mine.get(reg).copied();
            let ok = match (*tok, m) {
                ("u", None) | ("u", Some("U")) => true,
                ("s", Some("S")) => true,
                ("exp", Some(x)) => x.starts_with('E'),
                ("vexp", Some(x)) => x.starts_with('X'),
                (t, Some(x)) if t.starts_with("c+") || t.starts_with("c-") => x.strip_prefix('O').and_then(|n| n.parse::<i64>().ok()) == t[1..].parse::<i64>().ok(),
                (t, Some(x)) if t.starts_with("v+") || t.starts_with("v-") => x.strip_prefix('V').and_then(|n| n.parse::<i64>().ok()) == t[1..].parse::<i64>().ok(),
                _ => false,
            };
            if !ok {
                return Some(format!("row {k} register {reg}: {m:?} but readelf says {tok}"));
            }
        }
        for reg in mine.keys() {
            if !theirs.contains_key(reg) {
                return Some(format!("row {k} has a rule for register {reg} that readelf does not list"));
            }
        }
    }
    None
}

// ---------------------------------------------------------------- row equality (RegisterRuleMap: PartialEq)

/// last row of a program, cloned out of its context
fn last_row_with<'a, Sec, St>(section: &Sec, bases: &BaseAddresses, fde: &FrameDescriptionEntry<Rd<'a>>, cap: usize) -> Option<UnwindTableRow<usize, St>>
where
    Sec: UnwindSection<Rd<'a>>,
    St: UnwindContextStorage<usize>,
{
    let mut ctx: Box<UnwindContext<usize, St>> = Box::new(UnwindContext::new_in());
    let mut table = fde.rows(section, bases, &mut ctx).ok()?;
    let mut last = None;
    for _ in 0..cap {
        match table.next_row() {
            Ok(Some(row)) => last = Some(row.clone()),
            Ok(None) => return last,
            Err(_) => return None,
        }
    }
    None
}

/// `rowA == rowB` for the last rows of two programs (same addresses), plus both canonical texts
fn roweq<St: UnwindContextStorage<usize> + PartialEq>(a: &Req, b: &Req) -> Option<(bool, String, String)> {
    let (sa, oa) = a.build();
    let (sb, ob) = b.build();
    let mk = |bytes: &'_ [u8], q: &Req| {
        let mut s = DebugFrame::new(unsafe { std::mem::transmute::<&[u8], &'static [u8]>(bytes) }, q.endian());
        s.set_vendor(q.vendor());
        s
    };
    let (da, db) = (mk(&sa, a), mk(&sb, b));
    let bases = BaseAddresses::default();
    let fa = da.fde_from_offset(&bases, gimli::DebugFrameOffset(oa), DebugFrame::cie_from_offset).ok()?;
    let fb = db.fde_from_offset(&bases, gimli::DebugFrameOffset(ob), DebugFrame::cie_from_offset).ok()?;
    let ra = last_row_with::<_, St>(&da, &bases, &fa, a.cie.len() + a.fde.len() + 4)?;
    let rb = last_row_with::<_, St>(&db, &bases, &fb, b.cie.len() + b.fde.len() + 4)?;
    Some((ra == rb, snapshot(&ra, &sa).text, snapshot(&rb, &sb).text))
}

// ---------------------------------------------------------------- handler

/// set once a `cfi-*` request did not come back in time (see `handle`)
static CIRCUIT_OPEN: std::sync::atomic::AtomicBool = std::sync::atomic::AtomicBool::new(false);

type Job = (String, Vec<String>);
struct Helper {
    tx: std::sync::mpsc::Sender<Job>,
    rx: std::sync::mpsc::Receiver<Option<String>>,
}
static HELPER: std::sync::Mutex<Option<Helper>> = std::sync::Mutex::new(None);

fn start_helper() -> Option<Helper> {
    let (tx, jobs) = std::sync::mpsc::channel::<Job>();
    let (replies, rx) = std::sync::mpsc::channel::<Option<String>>();
    std::thread::Builder::new()
        .stack_size(4 << 20)
        .spawn(move || {
            while let Ok((op, args)) = jobs.recv() {
                let refs: Vec<&str> = args.iter().map(|s| s.as_str()).collect();
                let r = std::panic::catch_unwind(|| handle_inner(&op, &refs));
                let out = match r {
                    Ok(x) => x,
                    Err(p) => {
                        let msg = p.downcast_ref::<&str>().map(|s| s.to_string()).or_else(|| p.downcast_ref::<String>().cloned()).unwrap_or_else(|| "?".into());
                        Some(format!("panic {}", msg.replace('\n', " ")))
                    }
                };
                if replies.send(out).is_err() {
                    break;
                }
            }
        })
        .ok()?;
    Some(Helper { tx, rx })
}

/// Every `cfi-*` request runs gimli on a helper thread with a deadline.  A change that makes
/// `next_row` / `initialize` loop forever would otherwise cost the orchestrator's full per-case
/// watchdog (and a worker restart) for each of ~10^5 cases: after the first request that misses
/// its deadline this worker answers `hang` at once for the rest of its life (each such answer is a
/// reported failure), so the run still ends in minutes.  The stuck helper thread is abandoned.
pub fn handle(op: &str, a: &[&str]) -> Option<String> {
    use std::sync::atomic::Ordering;
    if !matches!(op, "cfi-unwind" | "cfi-decode" | "cfi-blk" | "cfi-seq" | "cfi-corpus" | "cfi-roweq") {
        return None;
    }
    if CIRCUIT_OPEN.load(Ordering::Relaxed) {
        return Some("hang circuit-open: an earlier cfi request did not return within its deadline".into());
    }
    // below the orchestrator's own per-case watchdog (20 s in the quick tier)
    let deadline = std::time::Duration::from_secs(if op == "cfi-blk" { 16 } else { 12 });
    let mut guard = match HELPER.lock() {
        Ok(g) => g,
        Err(_) => return handle_inner(op, a),
    };
    if guard.is_none() {
        *guard = start_helper();
    }
    let Some(h) = guard.as_ref() else { return handle_inner(op, a) };
    if h.tx.send((op.to_string(), a.iter().map(|s| s.to_string()).collect())).is_err() {
        return handle_inner(op, a);
    }
    match h.rx.recv_timeout(deadline) {
        Ok(r) => r,
        Err(_) => {
            CIRCUIT_OPEN.store(true, Ordering::Relaxed);
            Some("hang the request did not return within its deadline".into())
        }
    }
}

fn handle_inner(op: &str, a: &[&str]) -> Option<String> {
    let with_oracle = |s: String, o: Option<String>| match o {
        Some(w) => {
            let mut it = w.splitn(2, ' ');
            let class = it.next().unwrap_or("x");
            format!("{s} #oracle:{class} {}", it.next().unwrap_or(""))
        }
        None => s,
    };
    match (op, a) {
        ("cfi-unwind", [_mode, kind, endian, asz, enc, vendor, storage, bases, caf, daf, cie, addrs, fde]) => {
            let q = mk_req(kind, endian, asz, enc, vendor, bases, caf, daf, cie, addrs, fde)?;
            let (r, v) = unwind_req(&q, storage)?;
            Some(with_oracle(r, v))
        }
        ("cfi-corpus", [_mode, kind, endian, asz, enc, vendor, storage, bases, caf, daf, cie, addrs, fde, expected]) => {
            let q = mk_req(kind, endian, asz, enc, vendor, bases, caf, daf, cie, addrs, fde)?;
            let (r, v) = unwind_req(&q, storage)?;
            let v = v.or_else(|| readelf_verdict(&r, expected).map(|w| format!("readelf {w}")));
            Some(with_oracle(r, v))
        }
        ("cfi-roweq", [_mode, storage, cie_a, fde_a, cie_b, fde_b]) => {
            // two expression-free programs over the same FDE range; are their last rows `==`?
            let mk = |cie: &str, fde: &str| mk_req("df", "le", "8", "-", "aarch64", "-,-,-", "1", "-8", cie, "00100000000000008000000000000000", fde);
            let (a, b) = (mk(cie_a, fde_a)?, mk(cie_b, fde_b)?);
            let r = match *storage {
                "heap" => roweq::<StoreOnHeap>(&a, &b),
                "vec" => roweq::<StVec>(&a, &b),
                "a8x8" => roweq::<St<8, 8>>(&a, &b),
                _ => return None,
            };
            Some(match r {
                None => "err NoRow".to_string(),
                Some((eq, ta, tb)) => {
                    // PartialEq must be extensional: equal iff the canonical (sorted) texts are equal
                    let o = if eq != (ta == tb) { Some(format!("roweq == says {eq} but rows are {ta} and {tb}")) } else { None };
                    with_oracle(format!("ok {eq}"), o)
                }
            })
        }
        ("cfi-decode", [_mode, kind, endian, asz, enc, vendor, bases, cie, addrs, fde]) => {
            let q = mk_req(kind, endian, asz, enc, vendor, bases, "1", "1", cie, addrs, fde)?;
            let (r, v) = decode_req(&q);
            Some(with_oracle(r, v))
        }
        ("cfi-blk", [_mode, storage, len, pre]) => {
            caps(storage)?;
            let len: usize = len.parse().ok()?;
            let mut pre = ix_list(pre)?;
            let mut h = DIGEST_INIT;
            let mut bad = None;
            let mut badc = 0u64;
            blk_fold(storage, len, &mut pre, &mut h, &mut bad, &mut badc)?;
            Some(with_oracle(format!("digest {h}"), bad.map(|b| format!("block {badc}-cases-first={b}"))))
        }
        ("cfi-seq", [_mode, storage, ix, k]) => {
            caps(storage)?;
            let ix = ix_list(ix)?;
            let k: usize = k.parse().ok()?;
            if k > ix.len() {
                return None;
            }
            let (r, v) = blk_case(storage, &ix, k, true)?;
            Some(with_oracle(r, v))
        }
        _ => None,
    }
}

// ---------------------------------------------------------------- generators

const REGS: &[u64] = &[0, 1, 2, 3, 6, 7, 16, 33, 34, 35, 63, 64, 127, 128, 0xffff];
const STORAGES: &[&str] = &["heap", "vec", "a4x192", "a5x193", "a1x1", "a2x2", "a2x1", "a3x1", "a3x3", "a8x8"];

fn g_reg(rng: &mut Rng, small: bool) -> u64 {
    if small {
        return *rng.pick(&[1u64, 2, 3, 34]);
    }
    match rng.below(20) {
        0 => 0x10000,
        1 => rng.boundary_u64(),
        _ => *rng.pick(REGS),
    }
}
fn g_u(rng: &mut Rng) -> u64 {
    if rng.chance(1, 2) { rng.below(40) } else { rng.boundary_u64() }
}
fn g_s(rng: &mut Rng) -> i64 {
    if rng.chance(1, 2) { rng.below(40) as i64 - 20 } else { rng.boundary_i64() }
}
fn g_block(rng: &mut Rng) -> Vec<u8> {
    let n = rng.below(4) as usize;
    let mut v = uleb(n as u64);
    v.extend(rng.bytes(n));
    v
}

/// one random instruction over every opcode; `small` keeps registers in a 4-register pool so that
/// small storages hit their limits and restore/remember interact
fn g_instr(rng: &mut Rng, big: bool, asz: u8, enc: Option<u8>, small: bool, in_cie: bool) -> Vec<u8> {
    let mut v = vec![];
    let fixed = |v: &mut Vec<u8>, x: u64, n: usize| {
        let b = x.to_le_bytes();
        if big {
            v.extend(b[..n].iter().rev());
        } else {
            v.extend(&b[..n]);
        }
    };
    let lowreg = |rng: &mut Rng| if small { *rng.pick(&[1u8, 2, 3, 34]) } else { rng.below(64) as u8 };
    match rng.below(if in_cie { 30 } else { 34 }) {
        0 => v.push(0x40 | rng.below(64) as u8),
        1 => {
            v.push(0x80 | lowreg(rng));
            v.extend(uleb(g_u(rng)));
        }
        2 | 30 | 31 => v.push(0xc0 | lowreg(rng)),
        3 => v.push(0x00),
        4 => {
            // set_loc
            v.push(0x01);
            let a = rng.boundary_u64();
            match enc.map(|e| e & 0x0f) {
                None | Some(0) => fixed(&mut v, a, (asz as usize).min(8)),
                Some(1) => v.extend(uleb(a)),
                Some(9) => v.extend(sleb(a as i64)),
                Some(2) | Some(10) => fixed(&mut v, a, 2),
                Some(3) | Some(11) => fixed(&mut v, a, 4),
                _ => fixed(&mut v, a, 8),
            }
        }
        5 => {
            v.push(0x02);
            v.push(rng.boundary_u64() as u8);
        }
        6 => {
            v.push(0x03);
            fixed(&mut v, rng.boundary_u64(), 2);
        }
        7 => {
            v.push(0x04);
            fixed(&mut v, rng.boundary_u64(), 4);
        }
        8 => {
            v.push(0x05);
            v.extend(uleb(g_reg(rng, small)));
            v.extend(uleb(g_u(rng)));
        }
        9 | 32 => {
            v.push(0x06);
            v.extend(uleb(g_reg(rng, small)));
        }
        10 => {
            v.push(0x07);
            v.extend(uleb(g_reg(rng, small)));
        }
        11 => {
            v.push(0x08);
            v.extend(uleb(g_reg(rng, small)));
        }
        12 => {
            v.push(0x09);
            v.extend(uleb(g_reg(rng, small)));
            v.extend(uleb(g_reg(rng, false)));
        }
        13 | 29 => v.push(0x0a),
        14 | 33 => v.push(0x0b),
        15 => {
            v.push(0x0c);
            v.extend(uleb(g_reg(rng, false)));
            v.extend(uleb(g_u(rng)));
        }
        16 => {
            v.push(0x0d);
            v.extend(uleb(g_reg(rng, false)));
        }
        17 => {
            v.push(0x0e);
            v.extend(uleb(g_u(rng)));
        }
        18 => {
            v.push(0x0f);
            v.extend(g_block(rng));
        }
        19 => {
            v.push(0x10);
            v.extend(uleb(g_reg(rng, small)));
            v.extend(g_block(rng));
        }
        20 => {
            v.push(0x11);
            v.extend(uleb(g_reg(rng, small)));
            v.extend(sleb(g_s(rng)));
        }
        21 => {
            v.push(0x12);
            v.extend(uleb(g_reg(rng, false)));
            v.extend(sleb(g_s(rng)));
        }
        22 => {
            v.push(0x13);
            v.extend(sleb(g_s(rng)));
        }
        23 => {
            v.push(0x14);
            v.extend(uleb(g_reg(rng, small)));
            v.extend(uleb(g_u(rng)));
        }
        24 => {
            v.push(0x15);
            v.extend(uleb(g_reg(rng, small)));
            v.extend(sleb(g_s(rng)));
        }
        25 => {
            v.push(0x16);
            v.extend(uleb(g_reg(rng, small)));
            v.extend(g_block(rng));
        }
        26 => {
            v.push(0x2e);
            v.extend(uleb(g_u(rng)));
        }
        27 => v.push(0x2d),
        _ => {
            // advance_loc with a small delta: keeps tables going
            v.push(0x41 + rng.below(4) as u8);
        }
    }
    v
}

fn g_factor_u(rng: &mut Rng) -> u64 {
    match rng.below(10) {
        0 => 0,
        1..=4 => 1,
        5 => *rng.pick(&[2u64, 4, 8, 16]),
        6 => 1 << 63,
        7 => u64::MAX,
        _ => rng.boundary_u64(),
    }
}
fn g_factor_s(rng: &mut Rng) -> i64 {
    match rng.below(10) {
        0 => 0,
        1 => 1,
        2..=4 => *rng.pick(&[-8i64, -4, -1, -2]),
        5 => *rng.pick(&[2i64, 4, 8]),
        6 => i64::MIN,
        7 => i64::MAX,
        _ => rng.boundary_i64(),
    }
}

const ENCS: &[u8] = &[0x03, 0x04, 0x02, 0x0b, 0x0c, 0x0a, 0x00, 0x01, 0x09, 0x1b, 0x23, 0x33, 0x83, 0x43, 0x50, 0xff, 0x05, 0x10, 0x9b, 0x60];

fn enc_value(v: &mut Vec<u8>, enc: u8, x: u64, big: bool, asz: u8) {
    let fixed = |v: &mut Vec<u8>, x: u64, n: usize| {
        let b = x.to_le_bytes();
        if big {
            v.extend(b[..n].iter().rev());
        } else {
            v.extend(&b[..n]);
        }
    };
    match enc & 0x0f {
        0 => fixed(v, x, (asz as usize).clamp(1, 8)),
        1 => v.extend(uleb(x)),
        9 => v.extend(sleb(x as i64)),
        2 | 10 => fixed(v, x, 2),
        3 | 11 => fixed(v, x, 4),
        _ => fixed(v, x, 8),
    }
}

struct Shape {
    kind: &'static str,
    big: bool,
    asz: u8,
    enc: u8,
    mode_dep: bool,
}

fn g_shape(rng: &mut Rng) -> Shape {
    let big = rng.chance(1, 3);
    if rng.chance(3, 5) {
        Shape { kind: "df", big, asz: if rng.chance(1, 25) { *rng.pick(&[0u8, 3, 5, 16, 255]) } else { *rng.pick(&[1u8, 2, 4, 8, 8, 4]) }, enc: 0, mode_dep: false }
    } else {
        let asz = match rng.below(30) {
            0 => *rng.pick(&[0u8, 9, 16, 32, 33, 255]),
            _ => 1 + rng.below(8) as u8,
        };
        let enc = if rng.chance(2, 3) { *rng.pick(&ENCS[..6]) } else { *rng.pick(ENCS) };
        Shape { kind: "eh", big, asz, enc, mode_dep: !(1..=8).contains(&asz) }
    }
}

fn g_addrs(rng: &mut Rng, s: &Shape) -> (Vec<u8>, u64) {
    let mask = mask_of(s.asz.clamp(1, 8)).unwrap();
    let initial = match rng.below(6) {
        0 => 0,
        1 => mask,
        2 => mask - rng.below(16).min(mask),
        3 => rng.boundary_u64() & mask,
        _ => 0x1000 & mask,
    };
    let len = match rng.below(6) {
        0 => 0,
        1 => mask,
        2 => rng.boundary_u64() & mask,
        _ => rng.below(64),
    };
    let mut v = vec![];
    if s.kind == "df" {
        enc_value(&mut v, 0, initial, s.big, s.asz);
        enc_value(&mut v, 0, len, s.big, s.asz);
    } else {
        enc_value(&mut v, s.enc, initial, s.big, s.asz);
        enc_value(&mut v, s.enc, len, s.big, s.asz);
    }
    if rng.chance(1, 40) && !v.is_empty() {
        let k = rng.below(v.len() as u64) as usize;
        v.truncate(k);
    }
    (v, initial)
}

fn g_bases(rng: &mut Rng) -> String {
    let one = |rng: &mut Rng| if rng.chance(1, 2) { "-".to_string() } else { rng.boundary_u64().to_string() };
    format!("{},{},{}", one(rng), one(rng), one(rng))
}

/// a program that is valid with high probability: the generator tracks the depth of the implicit
/// stack, the kind of CFA rule and the current location, and picks operands accordingly.
/// Returns the instruction bytes; `loc` is updated.
struct VState {
    depth: usize,
    cfa_expr: bool,
    loc: u64,
    mask: u64,
    caf: u64,
}

fn g_valid_instr(rng: &mut Rng, st: &mut VState, big: bool, asz: u8, enc: Option<u8>, in_cie: bool, aarch64: bool) -> Vec<u8> {
    let mut v = vec![];
    let fixed = |v: &mut Vec<u8>, x: u64, n: usize| {
        let b = x.to_le_bytes();
        if big {
            v.extend(b[..n].iter().rev());
        } else {
            v.extend(&b[..n]);
        }
    };
    let reg = |rng: &mut Rng| *rng.pick(&[0u64, 1, 2, 3, 6, 7, 16, 29, 30, 34, 100]);
    let room = st.mask - st.loc.min(st.mask);
    loop {
        match rng.below(30) {
            0..=4 => {
                // advance
                let d = rng.below(20) + 1;
                let Some(total) = d.checked_mul(st.caf) else { continue };
                if total > room {
                    continue;
                }
                match rng.below(4) {
                    0 => v.push(0x40 | d as u8),
                    1 => {
                        v.push(0x02);
                        v.push(d as u8);
                    }
                    2 => {
                        v.push(0x03);
                        fixed(&mut v, d, 2);
                    }
                    _ => {
                        v.push(0x04);
                        fixed(&mut v, d, 4);
                    }
                }
                st.loc += total;
            }
            5 => {
                // set_loc forward (only for the plain fixed-size encodings)
                let plain = matches!(asz, 1 | 2 | 4 | 8);
                let step = rng.below(9).min(room);
                let a = st.loc + step;
                match enc.map(|e| e & 0x7f) {
                    None | Some(0) if plain => {
                        v.push(0x01);
                        fixed(&mut v, a, asz as usize);
                    }
                    Some(1) => {
                        v.push(0x01);
                        v.extend(uleb(a));
                    }
                    Some(2) if a <= 0xffff => {
                        v.push(0x01);
                        fixed(&mut v, a, 2);
                    }
                    Some(3) if a <= 0xffff_ffff => {
                        v.push(0x01);
                        fixed(&mut v, a, 4);
                    }
                    Some(4) | Some(12) => {
                        v.push(0x01);
                        fixed(&mut v, a, 8);
                    }
                    Some(11) if a <= 0x7fff_ffff => {
                        v.push(0x01);
                        fixed(&mut v, a, 4);
                    }
                    _ => continue,
                }
                st.loc = a;
            }
            6 | 7 => {
                v.push(0x80 | rng.below(32) as u8);
                v.extend(uleb(rng.below(40)));
            }
            8 => {
                v.push(0x05);
                v.extend(uleb(reg(rng)));
                v.extend(uleb(rng.below(300)));
            }
            9 => {
                if in_cie {
                    continue;
                }
                v.push(0xc0 | rng.below(32) as u8);
            }
            10 => {
                if in_cie {
                    continue;
                }
                v.push(0x06);
                v.extend(uleb(reg(rng)));
            }
            11 => {
                v.push(0x07);
                v.extend(uleb(reg(rng)));
            }
            12 => {
                v.push(0x08);
                v.extend(uleb(reg(rng)));
            }
            13 => {
                v.push(0x09);
                v.extend(uleb(reg(rng)));
                v.extend(uleb(reg(rng)));
            }
            14 | 15 => {
                if st.depth >= 2 {
                    continue;
                }
                v.push(0x0a);
                st.depth += 1;
            }
            16 | 17 => {
                if st.depth == 0 {
                    continue;
                }
                v.push(0x0b);
                st.depth -= 1;
                // the popped rule set may have either kind of CFA; stay conservative
                st.cfa_expr = true;
            }
            18 => {
                v.push(0x0c);
                v.extend(uleb(reg(rng)));
                v.extend(uleb(rng.below(4096)));
                st.cfa_expr = false;
            }
            19 => {
                v.push(0x12);
                v.extend(uleb(reg(rng)));
                v.extend(sleb(rng.below(64) as i64 - 32));
                st.cfa_expr = false;
            }
            20 => {
                if st.cfa_expr {
                    continue;
                }
                match rng.below(3) {
                    0 => {
                        v.push(0x0d);
                        v.extend(uleb(reg(rng)));
                    }
                    1 => {
                        v.push(0x0e);
                        v.extend(uleb(rng.below(4096)));
                    }
                    _ => {
                        v.push(0x13);
                        v.extend(sleb(rng.below(64) as i64 - 32));
                    }
                }
            }
            21 => {
                v.push(0x0f);
                v.extend(g_block(rng));
                st.cfa_expr = true;
            }
            22 => {
                v.push(*rng.pick(&[0x10u8, 0x16]));
                v.extend(uleb(reg(rng)));
                v.extend(g_block(rng));
            }
            23 => {
                v.push(*rng.pick(&[0x11u8, 0x15]));
                v.extend(uleb(reg(rng)));
                v.extend(sleb(rng.below(64) as i64 - 32));
            }
            24 => {
                v.push(0x14);
                v.extend(uleb(reg(rng)));
                v.extend(uleb(rng.below(64)));
            }
            25 => {
                v.push(0x2e);
                v.extend(uleb(rng.below(64)));
            }
            26 => {
                if !aarch64 {
                    continue;
                }
                v.push(0x2d);
            }
            _ => v.push(0x00),
        }
        return v;
    }
}

fn mode_tok(dep: bool) -> &'static str {
    if dep { "@MODE@" } else { "release" }
}

pub fn gen(ctx: &Ctx, emit: &mut dyn FnMut(String)) {
    let thorough = ctx.tier == Tier::Thorough;
    // ---- A. exhaustive: every sequence over the reduced alphabet, every CIE/FDE split
    let blk_storages: &[&str] = &["heap", "a1x1", "a2x2", "a3x1", "a2x1", "vec"];
    for st in blk_storages {
        for len in 0..=2usize {
            emit(format!("cfi-blk release {st} {len} -"));
        }
        for s in 0..ALPHABET.len() {
            emit(format!("cfi-blk release {st} 3 {s}"));
        }
    }
    for st in blk_storages {
        if !thorough && !matches!(*st, "heap" | "a2x2") {
            continue;
        }
        for s in 0..ALPHABET.len() {
            for t in 0..ALPHABET.len() {
                emit(format!("cfi-blk release {st} 4 {s},{t}"));
            }
        }
    }
    if thorough {
        for st in ["heap", "a2x2", "a3x1"] {
            for s in 0..ALPHABET.len() {
                for t in 0..ALPHABET.len() {
                    for u in 0..ALPHABET.len() {
                        emit(format!("cfi-blk release {st} 5 {s},{t},{u}"));
                    }
                }
            }
        }
    }
    // every single symbol and pair individually (localises a digest mismatch, feeds the histogram)
    for st in ["heap", "a1x1"] {
        for s in 0..ALPHABET.len() {
            for k in 0..=1 {
                emit(format!("cfi-seq release {st} {s} {k}"));
            }
            for t in 0..ALPHABET.len() {
                emit(format!("cfi-seq release {st} {s},{t} 1"));
            }
        }
    }

    // ---- B. decoding: all 256 opcode bytes with operands
    let mut rng = ctx.rng(0x0601);
    for opc in 0..=255u8 {
        for variant in 0..ctx.n(18, 60) {
            let s = g_shape(&mut rng);
            let vendor = if rng.chance(1, 2) { "aarch64" } else { "default" };
            // operands: random LEB-ish bytes, boundary encodings, or nothing (truncation)
            let mut bs = vec![opc];
            match variant % 6 {
                0 => {}
                1 => bs.extend(rng.bytes_below(12)),
                2 => {
                    bs.extend(uleb(g_reg(&mut rng, false)));
                    bs.extend(uleb(rng.boundary_u64()));
                }
                3 => {
                    bs.extend(uleb(g_reg(&mut rng, false)));
                    bs.extend(sleb(rng.boundary_i64()));
                    bs.extend(rng.bytes_below(3));
                }
                4 => {
                    bs.extend(uleb(rng.below(70000)));
                    bs.extend(g_block(&mut rng));
                    bs.push(0);
                }
                _ => {
                    let n = rng.below(11) as usize;
                    bs.extend((0..n).map(|_| rng.next() as u8 | 0x80));
                    bs.extend(rng.bytes_below(3));
                }
            }
            let (addrs, _) = g_addrs(&mut rng, &s);
            let in_cie = rng.chance(1, 3);
            let (cie, fde) = if in_cie { (hex(&bs), "-".to_string()) } else { ("-".to_string(), hex(&bs)) };
            emit(format!(
                "cfi-decode {} {} {} {} {} {} {} {} {} {}",
                mode_tok(s.mode_dep),
                s.kind,
                if s.big { "be" } else { "le" },
                s.asz,
                s.enc,
                vendor,
                g_bases(&mut rng),
                cie,
                hex(&addrs),
                fde
            ));
        }
    }

    // ---- C0. structured-valid programs: every opcode, tracked state, moderate operands
    let mut rng = ctx.rng(0x0604);
    for _ in 0..ctx.n(45_000, 600_000) {
        let big = rng.chance(1, 3);
        let eh = rng.chance(2, 5);
        let asz: u8 = if eh { 1 + rng.below(8) as u8 } else { *rng.pick(&[1u8, 2, 4, 8, 8, 4]) };
        let enc: u8 = if eh {
            if matches!(asz, 1 | 2 | 4 | 8) { *rng.pick(&[0x00u8, 0x01, 0x03, 0x04, 0x0b, 0x0c, 0x02]) } else { *rng.pick(&[0x01u8, 0x03, 0x04, 0x0b, 0x0c, 0x02]) }
        } else {
            0
        };
        let mask = mask_of(asz).unwrap();
        let aarch64 = rng.chance(2, 3);
        let caf = *rng.pick(&[1u64, 1, 1, 2, 4]);
        let daf = *rng.pick(&[-8i64, -4, -8, 1, 8, -1, 4]);
        // addresses: representable in the chosen field encoding
        let field_max: u64 = match enc & 0x0f {
            2 => 0xffff,
            3 => 0xffff_ffff,
            11 => 0x7fff_ffff,
            12 => i64::MAX as u64,
            _ => u64::MAX,
        };
        let lim = mask.min(field_max);
        let initial = match rng.below(4) {
            0 => 0,
            1 => lim - rng.below(64).min(lim),
            _ => rng.below(0x10000).min(lim),
        };
        let len = rng.below(256).min(lim);
        let s = Shape { kind: if eh { "eh" } else { "df" }, big, asz, enc, mode_dep: false };
        let mut addrs = vec![];
        enc_value(&mut addrs, enc, initial, big, asz);
        enc_value(&mut addrs, enc, len, big, asz);
        let mut st = VState { depth: 0, cfa_expr: false, loc: 0, mask, caf };
        let mut cie = vec![];
        for _ in 0..rng.below(5) {
            cie.extend(g_valid_instr(&mut rng, &mut st, big, asz, None, true, aarch64));
        }
        st.loc = initial;
        let mut fde = vec![];
        for _ in 0..rng.below(12) {
            fde.extend(g_valid_instr(&mut rng, &mut st, big, asz, if eh { Some(enc) } else { None }, false, aarch64));
        }
        let storage = *rng.pick(&["heap", "heap", "vec", "a4x192", "a5x193", "a8x8"]);
        emit(format!(
            "cfi-unwind release {} {} {} {} {} {} -,-,- {} {} {} {} {}",
            s.kind,
            if big { "be" } else { "le" },
            asz,
            enc,
            if aarch64 { "aarch64" } else { "default" },
            storage,
            caf,
            daf,
            hex(&cie),
            hex(&addrs),
            hex(&fde)
        ));
    }

    // ---- C. random programs over every opcode, boundary operands, every configuration
    let mut rng = ctx.rng(0x0602);
    for case in 0..ctx.n(24_000, 400_000) {
        let s = g_shape(&mut rng);
        let small = rng.chance(2, 3);
        let vendor = if rng.chance(2, 3) { "aarch64" } else { "default" };
        let storage = if small { *rng.pick(STORAGES) } else { *rng.pick(&["heap", "vec", "a4x192", "a8x8"]) };
        let ncie = rng.below(5) as usize;
        let nfde = rng.below(9) as usize;
        let enc = if s.kind == "eh" { Some(s.enc) } else { None };
        let mut cie = vec![];
        for _ in 0..ncie {
            cie.extend(g_instr(&mut rng, s.big, s.asz, None, small, true));
        }
        let mut fde = vec![];
        for _ in 0..nfde {
            fde.extend(g_instr(&mut rng, s.big, s.asz, enc, small, false));
        }
        // ~10 % malformed: truncate or corrupt one byte
        if case % 10 == 9 {
            let t = if rng.chance(1, 2) { &mut cie } else { &mut fde };
            if !t.is_empty() {
                let k = rng.below(t.len() as u64) as usize;
                if rng.chance(1, 2) {
                    t.truncate(k);
                } else {
                    t[k] = rng.next() as u8;
                }
            }
        }
        let (addrs, _) = g_addrs(&mut rng, &s);
        emit(format!(
            "cfi-unwind {} {} {} {} {} {} {} {} {} {} {} {} {}",
            mode_tok(s.mode_dep),
            s.kind,
            if s.big { "be" } else { "le" },
            s.asz,
            s.enc,
            vendor,
            storage,
            g_bases(&mut rng),
            g_factor_u(&mut rng),
            g_factor_s(&mut rng),
            hex(&cie),
            hex(&addrs),
            hex(&fde)
        ));
    }

    // ---- D. the storage limits reached exactly and exceeded by one
    let mut rng = ctx.rng(0x0603);
    let off_ext = |r: u64, o: u64| {
        let mut v = vec![0x05];
        v.extend(uleb(r));
        v.extend(uleb(o));
        v
    };
    for (storage, rows, rules) in [("heap", 4usize, 192usize), ("a4x192", 4, 192), ("a5x193", 5, 193), ("a8x8", 8, 8), ("a3x3", 3, 3), ("vec", 6, 200)] {
        for nrules in [rules - 1, rules, rules + 1] {
            for in_cie in [0usize, 1, 2, nrules / 2, nrules] {
                // `in_cie` rules set by the CIE, the rest by the FDE; then some restores
                let in_cie = in_cie.min(nrules);
                let mut cie = vec![];
                let mut fde = vec![];
                for r in 0..nrules {
                    let i = off_ext(r as u64 + 1, r as u64);
                    if r < in_cie { cie.extend(i) } else { fde.extend(i) }
                }
                fde.push(0x41);
                for _ in 0..3 {
                    let r = rng.below(nrules as u64 + 2);
                    fde.push(0x06);
                    fde.extend(uleb(r));
                }
                fde.push(0x41);
                fde.push(0x07);
                fde.extend(uleb(1000));
                emit(format!("cfi-unwind release df le 8 0 default {storage} -,-,- 1 -8 {} 00100000000000008000000000000000 {}", hex(&cie), hex(&fde)));
            }
        }
        for depth in [rows - 1, rows, rows + 1] {
            for cie_rules in 0..=3usize {
                for cie_rem in 0..=2usize {
                    // `cie_rem` remember_state in the CIE, `cie_rules` initial rules, then the FDE pushes
                    // until `depth` rows are needed in total
                    let mut cie = vec![];
                    for r in 0..cie_rules {
                        cie.extend(off_ext(r as u64 + 1, 1));
                    }
                    for _ in 0..cie_rem {
                        cie.push(0x0a);
                    }
                    let held = 1 + cie_rem + if cie_rules >= 2 { 1 } else { 0 };
                    let mut fde = vec![];
                    for k in 0..depth.saturating_sub(held) {
                        fde.push(0x0a);
                        fde.extend(off_ext(1, k as u64 + 7));
                        fde.push(0x42);
                    }
                    for _ in 0..depth + 1 {
                        fde.push(0x0b);
                        fde.push(0x41);
                    }
                    emit(format!("cfi-unwind release df le 8 0 default {storage} -,-,- 1 -8 {} 00100000000000008000000000000000 {}", hex(&cie), hex(&fde)));
                }
            }
        }
    }
    // ---- F. `UnwindTableRow: PartialEq` (RegisterRuleMap::eq) on pairs of expression-free programs:
    // a program and a reordering / perturbation of it
    let mut rng = ctx.rng(0x0605);
    for _ in 0..ctx.n(4_000, 60_000) {
        let n = 1 + rng.below(7) as usize;
        let mut instrs: Vec<Vec<u8>> = vec![];
        for _ in 0..n {
            let r = *rng.pick(&[1u8, 2, 3, 4, 5]);
            instrs.push(match rng.below(8) {
                0 => vec![0x80 | r, rng.below(3) as u8],
                1 => vec![0x07, r],
                2 => vec![0x08, r],
                3 => vec![0x09, r, rng.below(3) as u8],
                4 => vec![0xc0 | r],
                5 => vec![0x2e, rng.below(3) as u8],
                6 => vec![0x0c, 7, 8 + rng.below(2) as u8],
                _ => vec![0x14, r, rng.below(3) as u8],
            });
        }
        let mut other = instrs.clone();
        match rng.below(4) {
            0 => other.reverse(),
            1 => {
                let k = rng.below(n as u64) as usize;
                other.remove(k);
            }
            2 => {
                let (i, j) = (rng.below(n as u64) as usize, rng.below(n as u64) as usize);
                other.swap(i, j);
            }
            _ => {
                other.rotate_left(1);
            }
        }
        let kc = rng.below(3).min(n as u64) as usize;
        let ko = kc.min(other.len());
        let st = *rng.pick(&["heap", "vec", "a8x8"]);
        emit(format!(
            "cfi-roweq release {st} {} {} {} {}",
            hex(&instrs[..kc].concat()),
            hex(&instrs[kc..].concat()),
            hex(&other[..ko].concat()),
            hex(&other[ko..].concat())
        ));
    }

    // ---- E. compiler-built corpus: gimli's rows against `readelf -wF`
    corpus_lines(emit);

    // zero-capacity stack: API misuse, both sides panic
    emit("cfi-unwind release df le 8 0 default a0x4 -,-,- 1 -8 - 00100000000000008000000000000000 41".into());
    emit("cfi-unwind release df le 8 0 default a1x0 -,-,- 1 -8 - 00100000000000008000000000000000 8101".into());
}
