//! C12, unit / attribute component: `write::Dwarf::from` keeps the entry forest and the meaning
//! of every attribute, or fails.
//!
//! `c12unit …` (grammar: `lean/Gimli/Drv/C12Unit.lean`): the abstract `.debug_info` of the request
//! is encoded to real sections by the small assembler below (independent of `gimli::write`),
//! converted with `write::Dwarf::from`, written with `Dwarf::write`, and the output is listed as
//! `gimli::read` sees it (offset-free: entries in section order with depth and tag, attributes as
//! name / kind of `attr.value()` / resolved payload, references as `<unit>.<index>`).  The Model
//! predicts the same listing (or `failed:<error>`).  Direct oracle, independent of the Model: the
//! meaning of the request (computed here from the abstract request, not by reading anything)
//! against the meaning of the output listing.
use crate::prop::{Ctx, Tier};
use crate::util::{hex, unhex, Rng};
use gimli::read;
use gimli::write::{self, Address, EndianVec, Sections};
use gimli::{EndianSlice, Format, RunTimeEndian, SectionId};

#[derive(Clone, Debug, PartialEq)]
enum Pay {
    Num(u128),
    Int(i64),
    Bytes(Vec<u8>),
    Flag(bool),
    RefEntry(usize),
    RefNull(usize),
    RefMid(usize),
    RefOob,
    IRefEntry(usize, usize),
    IRefOob,
    StrIdx(usize),
    StrOff(u64),
}

#[derive(Clone, Debug)]
struct PAttr {
    name: u16,
    indirect: bool,
    form: &'static str,
    pay: Pay,
}

#[derive(Clone, Debug)]
struct PEntry {
    depth: usize,
    tag: u16,
    children: bool,
    attrs: Vec<PAttr>,
}

#[derive(Clone, Debug)]
struct PUnit {
    version: u16,
    format: Format,
    asz: u8,
    utype: u8,
    entries: Vec<PEntry>,
}

#[derive(Clone, Debug)]
struct Req {
    big: bool,
    bad: Option<u64>,
    strs: Vec<Vec<u8>>,
    lstrs: Vec<Vec<u8>>,
    xs: Vec<usize>,
    addrs: Vec<u64>,
    units: Vec<PUnit>,
}

/// (name, DW_FORM code)
const FORMS: &[(&str, u16)] = &[
    ("addr", 0x01), ("block2", 0x03), ("block4", 0x04), ("data2", 0x05), ("data4", 0x06), ("data8", 0x07),
    ("string", 0x08), ("block", 0x09), ("block1", 0x0a), ("data1", 0x0b), ("flag", 0x0c), ("sdata", 0x0d),
    ("strp", 0x0e), ("udata", 0x0f), ("ref_addr", 0x10), ("ref1", 0x11), ("ref2", 0x12), ("ref4", 0x13),
    ("ref8", 0x14), ("ref_udata", 0x15), ("sec_offset", 0x17), ("exprloc", 0x18), ("flag_present", 0x19),
    ("strx", 0x1a), ("addrx", 0x1b), ("ref_sup4", 0x1c), ("strp_sup", 0x1d), ("data16", 0x1e),
    ("line_strp", 0x1f), ("ref_sig8", 0x20), ("implicit_const", 0x21), ("ref_sup8", 0x24), ("strx1", 0x25),
    ("strx2", 0x26), ("strx3", 0x27), ("strx4", 0x28), ("addrx1", 0x29), ("addrx2", 0x2a), ("addrx3", 0x2b),
    ("addrx4", 0x2c), ("gnu_addr_index", 0x1f01), ("gnu_str_index", 0x1f02), ("gnu_ref_alt", 0x1f20),
    ("gnu_strp_alt", 0x1f21),
];

fn form_code(f: &str) -> u16 {
    FORMS.iter().find(|x| x.0 == f).map(|x| x.1).unwrap_or(0)
}

fn simple_op(b: u8) -> bool {
    matches!(b, 0x06 | 0x12..=0x14 | 0x16 | 0x19..=0x22 | 0x24..=0x27 | 0x29..=0x2e | 0x30..=0x6f | 0x96 | 0x9c | 0x9f)
}

const LISTY: &[u16] = &[0x02, 0x19, 0x2a, 0x38, 0x40, 0x46, 0x48, 0x4a, 0x4d, 0x2c, 0x55, 0x10];
/// names for which `Attribute::value` turns a block into an expression
const EXPR_NAMES: &[u16] = &[
    0x02, 0x0b, 0x0c, 0x0d, 0x19, 0x22, 0x2a, 0x2e, 0x2f, 0x37, 0x38, 0x40, 0x46, 0x48, 0x4a, 0x4d, 0x4e, 0x4f, 0x50, 0x51, 0x71, 0x7e, 0x7f,
    0x83, 0x84, 0x85, 0x86,
];
const SKIPPED: &[u16] = &[0x01, 0x72, 0x73, 0x74, 0x8c, 0x76, 0x2133, 0x2132, 0x2130, 0x2131];
const GNU_LOCVIEWS: u16 = 0x2137;

struct Parser<'a> {
    t: &'a [&'a str],
    i: usize,
}

impl<'a> Parser<'a> {
    fn tok(&mut self) -> Option<&'a str> {
        let r = self.t.get(self.i).copied();
        self.i += 1;
        r
    }
    fn nat(&mut self) -> Option<u128> {
        let t = self.tok()?;
        if t.is_empty() || t.len() > 39 || !t.bytes().all(|b| b.is_ascii_digit()) {
            return None;
        }
        t.parse().ok()
    }
    fn nat_lt(&mut self, b: u128) -> Option<u128> {
        self.nat().filter(|v| *v < b)
    }
    fn int64(&mut self) -> Option<i64> {
        let t = self.tok()?;
        let (neg, d) = match t.strip_prefix('-') {
            Some(d) => (true, d),
            None => (false, t),
        };
        if d.is_empty() || d.len() > 39 || !d.bytes().all(|b| b.is_ascii_digit()) {
            return None;
        }
        let m: i128 = d.parse().ok()?;
        let v = if neg { -m } else { m };
        if v >= -(1i128 << 63) && v < (1i128 << 63) { Some(v as i64) } else { None }
    }
    fn hexv(&mut self) -> Option<Vec<u8>> {
        unhex(self.tok()?)
    }
}

fn num_after(t: &str) -> Option<usize> {
    if t.is_empty() || !t.bytes().all(|b| b.is_ascii_digit()) || t.len() > 18 {
        return None;
    }
    t.parse().ok()
}

fn parse_attr(p: &mut Parser, nstr: usize, nlstr: usize, nx: usize, na: usize) -> Option<PAttr> {
    let name = p.nat_lt(1 << 16)? as u16;
    let mut t = p.tok()?;
    let mut indirect = false;
    if t == "i" {
        indirect = true;
        t = p.tok()?;
    }
    let form = FORMS.iter().find(|x| x.0 == t)?.0;
    if LISTY.contains(&name) && matches!(form, "sec_offset" | "data4" | "data8") {
        return None;
    }
    let pay = match form {
        "addr" | "data8" | "udata" | "ref_sig8" | "ref_sup8" | "gnu_ref_alt" | "strp_sup" | "gnu_strp_alt" | "sec_offset" => {
            Pay::Num(p.nat_lt(1 << 64)?)
        }
        "data1" => Pay::Num(p.nat_lt(1 << 8)?),
        "data2" => Pay::Num(p.nat_lt(1 << 16)?),
        "data4" | "ref_sup4" => Pay::Num(p.nat_lt(1 << 32)?),
        "data16" => Pay::Num(p.nat()?),
        "sdata" | "implicit_const" => Pay::Int(p.int64()?),
        "block1" | "block2" | "block4" | "block" => {
            let b = p.hexv()?;
            if EXPR_NAMES.contains(&name) && !b.iter().all(|x| simple_op(*x)) {
                return None;
            }
            Pay::Bytes(b)
        }
        "exprloc" => {
            let b = p.hexv()?;
            if !b.iter().all(|x| simple_op(*x)) {
                return None;
            }
            Pay::Bytes(b)
        }
        "string" => {
            let b = p.hexv()?;
            if b.contains(&0) {
                return None;
            }
            Pay::Bytes(b)
        }
        "flag" => Pay::Flag(p.nat_lt(2)? == 1),
        "flag_present" => Pay::Flag(true),
        "strp" | "line_strp" => {
            let t = p.tok()?;
            let n = if form == "strp" { nstr } else { nlstr };
            if let Some(r) = t.strip_prefix('!') {
                let off = num_after(r)? as u64;
                if off >= 1 << 32 {
                    return None;
                }
                Pay::StrOff(off)
            } else {
                let k = num_after(t)?;
                if k >= n {
                    return None;
                }
                Pay::StrIdx(k)
            }
        }
        "strx" | "strx1" | "strx2" | "strx3" | "strx4" | "gnu_str_index" => Pay::Num(p.nat_lt(nx as u128)?),
        "addrx" | "addrx1" | "addrx2" | "addrx3" | "addrx4" | "gnu_addr_index" => Pay::Num(p.nat_lt(na as u128)?),
        "ref1" | "ref2" | "ref4" | "ref8" | "ref_udata" => {
            let t = p.tok()?;
            if t == "oob" {
                Pay::RefOob
            } else if let Some(r) = t.strip_prefix('n') {
                Pay::RefNull(num_after(r)?)
            } else if let Some(r) = t.strip_prefix('m') {
                Pay::RefMid(num_after(r)?)
            } else {
                Pay::RefEntry(num_after(t)?)
            }
        }
        "ref_addr" => {
            let t = p.tok()?;
            if t == "oob" {
                Pay::IRefOob
            } else {
                let (u, k) = t.split_once('.')?;
                Pay::IRefEntry(num_after(u)?, num_after(k)?)
            }
        }
        _ => return None,
    };
    Some(PAttr { name, indirect, form, pay })
}

fn parse(a: &[&str]) -> Option<Req> {
    let mut p = Parser { t: a, i: 0 };
    let big = match p.tok()? {
        "le" => false,
        "be" => true,
        _ => return None,
    };
    let b = p.tok()?;
    let bad = if b == "-" { None } else { Some(num_after(b).map(|x| x as u64).or_else(|| b.parse::<u64>().ok())?) };
    let str_tab = |p: &mut Parser| -> Option<Vec<Vec<u8>>> {
        let n = p.nat_lt(256)? as usize;
        let mut v = Vec::new();
        for _ in 0..n {
            let s = p.hexv()?;
            if s.contains(&0) {
                return None;
            }
            v.push(s);
        }
        Some(v)
    };
    if p.tok()? != "S" {
        return None;
    }
    let strs = str_tab(&mut p)?;
    if p.tok()? != "L" {
        return None;
    }
    let lstrs = str_tab(&mut p)?;
    if p.tok()? != "X" {
        return None;
    }
    let nx = p.nat_lt(256)? as usize;
    let mut xs = Vec::new();
    for _ in 0..nx {
        xs.push(p.nat_lt(strs.len() as u128)? as usize);
    }
    if p.tok()? != "A" {
        return None;
    }
    let na = p.nat_lt(256)? as usize;
    let mut addrs = Vec::new();
    for _ in 0..na {
        addrs.push(p.nat_lt(1 << 64)? as u64);
    }
    if p.tok()? != "U" {
        return None;
    }
    let nu = p.nat_lt(9)? as usize;
    let mut units = Vec::new();
    for _ in 0..nu {
        let version = p.nat_lt(8)? as u16;
        if !(2..=5).contains(&version) {
            return None;
        }
        let format = match p.tok()? {
            "32" => Format::Dwarf32,
            "64" => Format::Dwarf64,
            _ => return None,
        };
        let asz = p.nat()?;
        if !matches!(asz, 1 | 2 | 4 | 8) {
            return None;
        }
        let utype = p.nat_lt(256)? as u8;
        if (version == 5 && !matches!(utype, 1 | 2 | 3)) || (version < 5 && utype != 1) {
            return None;
        }
        let n = p.nat_lt(2048)? as usize;
        let mut entries: Vec<PEntry> = Vec::new();
        for _ in 0..n {
            let depth = p.nat_lt(256)? as usize;
            let tag = p.nat_lt(1 << 16)? as u16;
            if tag == 0 {
                return None;
            }
            let children = p.nat_lt(2)? == 1;
            let na_ = p.nat_lt(64)? as usize;
            let mut attrs = Vec::new();
            for _ in 0..na_ {
                attrs.push(parse_attr(&mut p, strs.len(), lstrs.len(), nx, na)?);
            }
            entries.push(PEntry { depth, tag, children, attrs });
        }
        // well nested
        if entries.is_empty() || entries[0].depth != 0 {
            return None;
        }
        for w in entries.windows(2) {
            let (prev, e) = (&w[0], &w[1]);
            if e.depth < 1 || !(e.depth <= prev.depth || (e.depth == prev.depth + 1 && prev.children)) {
                return None;
            }
        }
        units.push(PUnit { version, format, asz: asz as u8, utype, entries });
    }
    if p.i != a.len() {
        return None;
    }
    if na > 0 && units.iter().any(|u| addrs.iter().any(|a| u.asz < 8 && *a >= 1u64 << (8 * u.asz as u32))) {
        return None;
    }
    Some(Req { big, bad, strs, lstrs, xs, addrs, units })
}

// ---------------------------------------------------------------------------------------------
// assembler (independent of gimli::write)
// ---------------------------------------------------------------------------------------------

fn uleb(mut v: u128, out: &mut Vec<u8>) {
    loop {
        let b = (v & 0x7f) as u8;
        v >>= 7;
        if v == 0 {
            out.push(b);
            return;
        }
        out.push(b | 0x80);
    }
}

fn sleb(mut v: i64, out: &mut Vec<u8>) {
    loop {
        let b = (v & 0x7f) as u8;
        let done = (v >> 6) == 0 || (v >> 6) == -1;
        if done {
            out.push(b);
            return;
        }
        out.push(b | 0x80);
        v >>= 7;
    }
}

fn fixed(big: bool, n: usize, v: u128, out: &mut Vec<u8>) {
    let le = v.to_le_bytes();
    if big {
        out.extend(le[..n].iter().rev());
    } else {
        out.extend(&le[..n]);
    }
}

struct Sections0 {
    info: Vec<u8>,
    abbrev: Vec<u8>,
    str_: Vec<u8>,
    line_str: Vec<u8>,
    str_offsets: Vec<u8>,
    addr: Vec<u8>,
}

fn table_offsets(tab: &[Vec<u8>]) -> Vec<u64> {
    let mut o = 0u64;
    tab.iter()
        .map(|s| {
            let r = o;
            o += s.len() as u64 + 1;
            r
        })
        .collect()
}

/// layout of one unit for given guesses of all entry section offsets; returns bytes, the offsets of
/// its entries and of the null entries closing each entry's children (unit relative)
struct UnitLayout {
    bytes: Vec<u8>,
    entry_off: Vec<u64>,
    null_off: Vec<Option<u64>>,
    entry_len: Vec<u64>,
}

#[allow(clippy::too_many_arguments)]
fn encode_unit(
    req: &Req,
    u: usize,
    abbrev_off: u64,
    xbase: Option<u64>,
    abase: Option<u64>,
    guess: &[UnitLayout],
    bases: &[u64],
    section_end: u64,
) -> Option<UnitLayout> {
    let pu = &req.units[u];
    let word = if pu.format == Format::Dwarf64 { 8usize } else { 4 };
    let soff = table_offsets(&req.strs);
    let loff = table_offsets(&req.lstrs);
    let mut body: Vec<u8> = Vec::new();
    // header after the length field
    fixed(req.big, 2, pu.version as u128, &mut body);
    if pu.version >= 5 {
        body.push(pu.utype);
        body.push(pu.asz);
        fixed(req.big, word, abbrev_off as u128, &mut body);
        if pu.utype == 2 {
            fixed(req.big, 8, 0x1122_3344_5566_7788, &mut body);
            // type_offset: the root entry
            let hdr = if word == 8 { 12 } else { 4 } + 2 + 2 + word + 8 + word;
            fixed(req.big, word, hdr as u128, &mut body);
        }
    } else {
        fixed(req.big, word, abbrev_off as u128, &mut body);
        body.push(pu.asz);
    }
    let len_size = if word == 8 { 12u64 } else { 4 };
    let me = &guess[u];
    let unit_total = me.bytes.len() as u64;
    let n = pu.entries.len();
    let mut entry_off = vec![0u64; n];
    let mut entry_len = vec![0u64; n];
    let mut null_off: Vec<Option<u64>> = vec![None; n];
    let mut open: Vec<usize> = Vec::new(); // entries with the children flag still open
    for (k, e) in pu.entries.iter().enumerate() {
        while let Some(&top) = open.last() {
            if pu.entries[top].depth >= e.depth {
                null_off[top] = Some(len_size + body.len() as u64);
                body.push(0);
                open.pop();
            } else {
                break;
            }
        }
        entry_off[k] = len_size + body.len() as u64;
        uleb(k as u128 + 1, &mut body);
        let mut attrs: Vec<PAttr> = e.attrs.clone();
        if k == 0 {
            if let Some(b) = xbase {
                attrs.push(PAttr { name: 0x72, indirect: false, form: "sec_offset", pay: Pay::Num(b as u128) });
            }
            if let Some(b) = abase {
                attrs.push(PAttr { name: 0x73, indirect: false, form: "sec_offset", pay: Pay::Num(b as u128) });
            }
        }
        for a in &attrs {
            if a.indirect {
                uleb(form_code(a.form) as u128, &mut body);
            }
            let uref = |p: &Pay| -> u64 {
                match p {
                    Pay::RefEntry(k) if *k < n => me.entry_off.get(*k).copied().unwrap_or(0),
                    Pay::RefNull(k) if *k < n => me.null_off.get(*k).copied().flatten().unwrap_or(unit_total + 16),
                    Pay::RefMid(k) if *k < n && me.entry_len.get(*k).copied().unwrap_or(0) >= 2 => me.entry_off[*k] + 1,
                    _ => unit_total + 16,
                }
            };
            match (a.form, &a.pay) {
                ("addr", Pay::Num(v)) => {
                    if pu.asz < 8 && *v >= 1u128 << (8 * pu.asz as u32) {
                        return None;
                    }
                    fixed(req.big, pu.asz as usize, *v, &mut body)
                }
                ("data1", Pay::Num(v)) => fixed(req.big, 1, *v, &mut body),
                ("data2", Pay::Num(v)) => fixed(req.big, 2, *v, &mut body),
                ("data4", Pay::Num(v)) | ("ref_sup4", Pay::Num(v)) => fixed(req.big, 4, *v, &mut body),
                ("data8", Pay::Num(v)) | ("ref_sig8", Pay::Num(v)) | ("ref_sup8", Pay::Num(v)) => fixed(req.big, 8, *v, &mut body),
                ("data16", Pay::Num(v)) => fixed(req.big, 16, *v, &mut body),
                ("udata", Pay::Num(v)) => uleb(*v, &mut body),
                ("sec_offset", Pay::Num(v)) | ("strp_sup", Pay::Num(v)) | ("gnu_strp_alt", Pay::Num(v)) | ("gnu_ref_alt", Pay::Num(v)) => {
                    if word == 4 && *v >= 1 << 32 {
                        return None;
                    }
                    fixed(req.big, word, *v, &mut body)
                }
                ("sdata", Pay::Int(v)) => sleb(*v, &mut body),
                ("implicit_const", Pay::Int(_)) => {}
                ("block1", Pay::Bytes(b)) => {
                    if b.len() > 0xff {
                        return None;
                    }
                    body.push(b.len() as u8);
                    body.extend(b)
                }
                ("block2", Pay::Bytes(b)) => {
                    if b.len() > 0xffff {
                        return None;
                    }
                    fixed(req.big, 2, b.len() as u128, &mut body);
                    body.extend(b)
                }
                ("block4", Pay::Bytes(b)) => {
                    fixed(req.big, 4, b.len() as u128, &mut body);
                    body.extend(b)
                }
                ("block", Pay::Bytes(b)) | ("exprloc", Pay::Bytes(b)) => {
                    uleb(b.len() as u128, &mut body);
                    body.extend(b)
                }
                ("string", Pay::Bytes(b)) => {
                    body.extend(b);
                    body.push(0)
                }
                ("flag", Pay::Flag(b)) => body.push(*b as u8),
                ("flag_present", _) => {}
                ("strp", Pay::StrIdx(k)) => fixed(req.big, word, soff[*k] as u128, &mut body),
                ("line_strp", Pay::StrIdx(k)) => fixed(req.big, word, loff[*k] as u128, &mut body),
                ("strp", Pay::StrOff(o)) | ("line_strp", Pay::StrOff(o)) => fixed(req.big, word, *o as u128, &mut body),
                ("strx", Pay::Num(v)) | ("gnu_str_index", Pay::Num(v)) | ("addrx", Pay::Num(v)) | ("gnu_addr_index", Pay::Num(v)) => uleb(*v, &mut body),
                ("strx1", Pay::Num(v)) | ("addrx1", Pay::Num(v)) => fixed(req.big, 1, *v, &mut body),
                ("strx2", Pay::Num(v)) | ("addrx2", Pay::Num(v)) => fixed(req.big, 2, *v, &mut body),
                ("strx3", Pay::Num(v)) | ("addrx3", Pay::Num(v)) => fixed(req.big, 3, *v, &mut body),
                ("strx4", Pay::Num(v)) | ("addrx4", Pay::Num(v)) => fixed(req.big, 4, *v, &mut body),
                ("ref1", p) => {
                    let v = uref(p);
                    if v > 0xff {
                        return None;
                    }
                    fixed(req.big, 1, v as u128, &mut body)
                }
                ("ref2", p) => {
                    let v = uref(p);
                    if v > 0xffff {
                        return None;
                    }
                    fixed(req.big, 2, v as u128, &mut body)
                }
                ("ref4", p) => fixed(req.big, 4, uref(p) as u128, &mut body),
                ("ref8", p) => fixed(req.big, 8, uref(p) as u128, &mut body),
                ("ref_udata", p) => uleb(uref(p) as u128, &mut body),
                ("ref_addr", p) => {
                    let v = match p {
                        Pay::IRefEntry(u2, k) if *u2 < guess.len() && *k < req.units[*u2].entries.len() => {
                            bases[*u2] + guess[*u2].entry_off.get(*k).copied().unwrap_or(0)
                        }
                        _ => section_end + 100,
                    };
                    let size = if pu.version == 2 { pu.asz as usize } else { word };
                    if size < 8 && v >= 1u64 << (8 * size as u32) {
                        return None;
                    }
                    fixed(req.big, size, v as u128, &mut body)
                }
                _ => return None,
            }
        }
        entry_len[k] = len_size + body.len() as u64 - entry_off[k];
        if e.children {
            open.push(k);
        }
    }
    while let Some(top) = open.pop() {
        null_off[top] = Some(len_size + body.len() as u64);
        body.push(0);
    }
    let mut bytes = Vec::new();
    if word == 8 {
        fixed(req.big, 4, 0xffff_ffff, &mut bytes);
        fixed(req.big, 8, body.len() as u128, &mut bytes);
    } else {
        fixed(req.big, 4, body.len() as u128, &mut bytes);
    }
    bytes.extend(body);
    Some(UnitLayout { bytes, entry_off, null_off, entry_len })
}

fn uses(pu: &PUnit, forms: &[&str]) -> bool {
    pu.entries.iter().any(|e| e.attrs.iter().any(|a| forms.contains(&a.form)))
}

fn assemble(req: &Req) -> Option<(Sections0, Vec<UnitLayout>, Vec<u64>)> {
    let mut s = Sections0 { info: vec![], abbrev: vec![], str_: vec![], line_str: vec![], str_offsets: vec![], addr: vec![] };
    for x in &req.strs {
        s.str_.extend(x);
        s.str_.push(0);
    }
    for x in &req.lstrs {
        s.line_str.extend(x);
        s.line_str.push(0);
    }
    let soff = table_offsets(&req.strs);
    // abbreviations, string-offset and address contributions
    let mut abbrev_offs = Vec::new();
    let mut xbases = Vec::new();
    let mut abases = Vec::new();
    for pu in &req.units {
        let word = if pu.format == Format::Dwarf64 { 8usize } else { 4 };
        let xb = if uses(pu, &["strx", "strx1", "strx2", "strx3", "strx4", "gnu_str_index"]) {
            if pu.version >= 5 {
                let mut body = Vec::new();
                fixed(req.big, 2, 5, &mut body);
                fixed(req.big, 2, 0, &mut body);
                let len = body.len() + req.xs.len() * word;
                if word == 8 {
                    fixed(req.big, 4, 0xffff_ffff, &mut s.str_offsets);
                    fixed(req.big, 8, len as u128, &mut s.str_offsets);
                } else {
                    fixed(req.big, 4, len as u128, &mut s.str_offsets);
                }
                s.str_offsets.extend(body);
            }
            let b = s.str_offsets.len() as u64;
            for k in &req.xs {
                fixed(req.big, word, soff[*k] as u128, &mut s.str_offsets);
            }
            Some(b)
        } else {
            None
        };
        let ab = if uses(pu, &["addrx", "addrx1", "addrx2", "addrx3", "addrx4", "gnu_addr_index"]) {
            if pu.version >= 5 {
                let len = 4 + req.addrs.len() * pu.asz as usize;
                if word == 8 {
                    fixed(req.big, 4, 0xffff_ffff, &mut s.addr);
                    fixed(req.big, 8, len as u128, &mut s.addr);
                } else {
                    fixed(req.big, 4, len as u128, &mut s.addr);
                }
                fixed(req.big, 2, 5, &mut s.addr);
                s.addr.push(pu.asz);
                s.addr.push(0);
            }
            let b = s.addr.len() as u64;
            for a in &req.addrs {
                fixed(req.big, pu.asz as usize, *a as u128, &mut s.addr);
            }
            Some(b)
        } else {
            None
        };
        xbases.push(xb);
        abases.push(ab);
        abbrev_offs.push(s.abbrev.len() as u64);
        for (k, e) in pu.entries.iter().enumerate() {
            uleb(k as u128 + 1, &mut s.abbrev);
            uleb(e.tag as u128, &mut s.abbrev);
            s.abbrev.push(e.children as u8);
            let mut attrs: Vec<(u16, u16, Option<i64>)> = e
                .attrs
                .iter()
                .map(|a| {
                    let f = if a.indirect { 0x16 } else { form_code(a.form) };
                    let ic = if a.form == "implicit_const" && !a.indirect { if let Pay::Int(i) = a.pay { Some(i) } else { None } } else { None };
                    (a.name, f, ic)
                })
                .collect();
            if k == 0 {
                if xb.is_some() {
                    attrs.push((0x72, 0x17, None));
                }
                if ab.is_some() {
                    attrs.push((0x73, 0x17, None));
                }
            }
            for (n, f, ic) in attrs {
                uleb(n as u128, &mut s.abbrev);
                uleb(f as u128, &mut s.abbrev);
                if let Some(i) = ic {
                    sleb(i, &mut s.abbrev);
                }
            }
            s.abbrev.push(0);
            s.abbrev.push(0);
        }
        s.abbrev.push(0);
    }
    // implicit_const through DW_FORM_indirect has no place for its value
    if req.units.iter().any(|u| u.entries.iter().any(|e| e.attrs.iter().any(|a| a.indirect && a.form == "implicit_const"))) {
        return None;
    }
    // .debug_info: iterate until the offsets are stable (variable-size reference forms)
    let mut guess: Vec<UnitLayout> = req
        .units
        .iter()
        .map(|pu| UnitLayout { bytes: vec![], entry_off: vec![0; pu.entries.len()], null_off: vec![None; pu.entries.len()], entry_len: vec![0; pu.entries.len()] })
        .collect();
    let mut bases = vec![0u64; req.units.len()];
    for _round in 0..12 {
        let section_end: u64 = guess.iter().map(|g| g.bytes.len() as u64).sum();
        let mut next = Vec::new();
        for u in 0..req.units.len() {
            next.push(encode_unit(req, u, abbrev_offs[u], xbases[u], abases[u], &guess, &bases, section_end)?);
        }
        let mut nb = Vec::new();
        let mut o = 0u64;
        for l in &next {
            nb.push(o);
            o += l.bytes.len() as u64;
        }
        let stable = nb == bases && next.iter().zip(guess.iter()).all(|(a, b)| a.bytes == b.bytes);
        guess = next;
        bases = nb;
        if stable {
            for l in &guess {
                s.info.extend(&l.bytes);
            }
            return Some((s, guess, bases));
        }
    }
    None
}

// ---------------------------------------------------------------------------------------------
// listing of what gimli::read sees
// ---------------------------------------------------------------------------------------------

type R<'a> = EndianSlice<'a, RunTimeEndian>;

#[derive(Clone, Debug, PartialEq)]
struct LEntry {
    depth: isize,
    tag: u16,
    sibling: bool,
    /// (name, kind, payload text)
    attrs: Vec<(u16, String, String)>,
}

#[derive(Clone, Debug, PartialEq)]
struct LUnit {
    version: u16,
    format: Format,
    asz: u8,
    entries: Vec<LEntry>,
}

fn kind_name<T: std::fmt::Debug>(v: &T) -> String {
    let s = format!("{:?}", v);
    s.split(|c: char| c == '(' || c == ' ' || c == '{').next().unwrap_or("").to_string()
}

fn list_output(dwarf: &read::Dwarf<R>) -> Result<Vec<LUnit>, String> {
    // pass 1: offsets of all entries
    let mut heads = Vec::new();
    let mut it = dwarf.units();
    while let Some(h) = it.next().map_err(|e| format!("{e:?}"))? {
        heads.push(h);
    }
    let mut offs: Vec<(usize, Vec<usize>)> = Vec::new(); // (unit base, unit offsets of non-null entries)
    let mut abbrevs = Vec::new();
    for h in &heads {
        let a = dwarf.abbreviations(h).map_err(|e| format!("{e:?}"))?;
        let mut raw = h.entries_raw(&a, None).map_err(|e| format!("{e:?}"))?;
        let mut v = Vec::new();
        let mut e = read::DebuggingInformationEntry::null();
        while !raw.is_empty() {
            let off = raw.next_offset().0;
            if raw.read_entry(&mut e).map_err(|e| format!("{e:?}"))? {
                v.push(off);
            }
        }
        offs.push((h.debug_info_offset().map(|o| o.0).unwrap_or(0), v));
        abbrevs.push(a);
    }
    let pos_unit = |u: usize, uoff: usize| -> String {
        match offs[u].1.iter().position(|o| *o == uoff) {
            Some(k) => format!("{u}.{k}"),
            None => "?".into(),
        }
    };
    let pos_section = |soff: usize| -> String {
        for (u, (base, v)) in offs.iter().enumerate() {
            if soff >= *base {
                if let Some(k) = v.iter().position(|o| base + *o == soff) {
                    return format!("{u}.{k}");
                }
            }
        }
        "?".into()
    };
    let mut out = Vec::new();
    for (u, h) in heads.iter().enumerate() {
        let mut raw = h.entries_raw(&abbrevs[u], None).map_err(|e| format!("{e:?}"))?;
        let mut entries = Vec::new();
        let mut e = read::DebuggingInformationEntry::null();
        while !raw.is_empty() {
            let depth = raw.next_depth();
            if !raw.read_entry(&mut e).map_err(|e| format!("{e:?}"))? {
                continue;
            }
            let mut attrs = Vec::new();
            let mut sibling = false;
            for a in e.attrs() {
                if a.name() == gimli::DW_AT_sibling {
                    sibling = true;
                    continue;
                }
                let v = a.value();
                use read::AttributeValue as V;
                let text = match &v {
                    V::Addr(x) => x.to_string(),
                    V::Block(r) => hex(r.slice()),
                    V::Data1(x) => x.to_string(),
                    V::Data2(x) => x.to_string(),
                    V::Data4(x) => x.to_string(),
                    V::Data8(x) => x.to_string(),
                    V::Data16(x) => x.to_string(),
                    V::Sdata(x) => x.to_string(),
                    V::Udata(x) => x.to_string(),
                    V::Exprloc(x) => hex(x.0.slice()),
                    V::Flag(b) => (*b as u8).to_string(),
                    V::SecOffset(x) => x.to_string(),
                    V::UnitRef(o) => pos_unit(u, o.0),
                    V::DebugInfoRef(o) => pos_section(o.0),
                    V::DebugInfoRefSup(o) => o.0.to_string(),
                    V::DebugLineRef(o) => o.0.to_string(),
                    V::DebugMacinfoRef(o) => o.0.to_string(),
                    V::DebugMacroRef(o) => o.0.to_string(),
                    V::DebugTypesRef(s) => s.0.to_string(),
                    V::DebugStrRef(o) => match dwarf.debug_str.get_str(*o) {
                        Ok(s) => hex(s.slice()),
                        Err(_) => "?".into(),
                    },
                    V::DebugLineStrRef(o) => match dwarf.debug_line_str.get_str(*o) {
                        Ok(s) => hex(s.slice()),
                        Err(_) => "?".into(),
                    },
                    V::DebugStrRefSup(o) => o.0.to_string(),
                    V::String(r) => hex(r.slice()),
                    V::Encoding(x) => x.0.to_string(),
                    V::DecimalSign(x) => x.0.to_string(),
                    V::Endianity(x) => x.0.to_string(),
                    V::Accessibility(x) => x.0.to_string(),
                    V::Visibility(x) => x.0.to_string(),
                    V::Virtuality(x) => x.0.to_string(),
                    V::Language(x) => x.0.to_string(),
                    V::AddressClass(x) => x.0.to_string(),
                    V::IdentifierCase(x) => x.0.to_string(),
                    V::CallingConvention(x) => x.0.to_string(),
                    V::Inline(x) => x.0.to_string(),
                    V::Ordering(x) => x.0.to_string(),
                    V::FileIndex(x) => x.to_string(),
                    V::DwoId(x) => x.0.to_string(),
                    other => format!("{other:?}").replace(' ', ""),
                };
                attrs.push((a.name().0, kind_name(&v), text));
            }
            entries.push(LEntry { depth, tag: e.tag().0, sibling, attrs });
        }
        let enc = h.encoding();
        out.push(LUnit { version: enc.version, format: enc.format, asz: enc.address_size, entries });
    }
    Ok(out)
}

fn render_listing(l: &[LUnit]) -> String {
    let mut s = String::from("ok");
    for u in l {
        s += &format!(" u:{}:{}:{}", u.version, if u.format == Format::Dwarf64 { 64 } else { 32 }, u.asz);
        for e in &u.entries {
            s += &format!(" e:{}:{}:{}", e.depth, e.tag, e.sibling as u8);
            for (n, k, t) in &e.attrs {
                s += &format!(" a:{n}:{k}:{t}");
            }
        }
    }
    s
}

// ---------------------------------------------------------------------------------------------
// the meaning of the request, computed without reading anything (direct oracle)
// ---------------------------------------------------------------------------------------------

/// coarse meaning class of an output kind
fn coarse(kind: &str, text: &str) -> String {
    match kind {
        "Data1" | "Data2" | "Data4" | "Data8" | "Data16" | "Udata" | "Encoding" | "DecimalSign" | "Endianity" | "Accessibility"
        | "Visibility" | "Virtuality" | "Language" | "AddressClass" | "IdentifierCase" | "CallingConvention" | "Inline" | "Ordering"
        | "FileIndex" | "DwoId" | "Sdata" => format!("N:{text}"),
        "Block" | "Exprloc" => format!("B:{text}"),
        "String" | "DebugStrRef" | "DebugLineStrRef" => format!("STR:{text}"),
        "Addr" => format!("ADDR:{text}"),
        "UnitRef" | "DebugInfoRef" => format!("REF:{text}"),
        "Flag" => format!("F:{text}"),
        k => format!("{k}:{text}"),
    }
}

/// order in which the writer lays the entries of a unit out: the root's base-type children first
/// (documented reordering); returns for each position the input index
fn output_order(pu: &PUnit) -> Vec<usize> {
    let n = pu.entries.len();
    // subtrees of the root's children
    let mut kids: Vec<(usize, usize)> = Vec::new(); // [start, end)
    let mut i = 1;
    while i < n {
        let mut j = i + 1;
        while j < n && pu.entries[j].depth > 1 {
            j += 1;
        }
        kids.push((i, j));
        i = j;
    }
    let mut order = vec![0usize];
    for (a, b) in kids.iter().filter(|(a, _)| pu.entries[*a].tag == 0x24) {
        order.extend(*a..*b);
    }
    for (a, b) in kids.iter().filter(|(a, _)| pu.entries[*a].tag != 0x24) {
        order.extend(*a..*b);
    }
    order
}

/// `Err(reason)`: the request cannot be converted faithfully (an error is the only right answer)
fn intended(req: &Req) -> Result<Vec<LUnit>, String> {
    let orders: Vec<Vec<usize>> = req.units.iter().map(output_order).collect();
    let pos = |u: usize, k: usize| -> Option<String> { orders.get(u)?.iter().position(|x| *x == k).map(|p| format!("{u}.{p}")) };
    let str_at = |tab: &[Vec<u8>], off: u64| -> Option<Vec<u8>> {
        let mut sec = Vec::new();
        for s in tab {
            sec.extend(s);
            sec.push(0);
        }
        let off = off as usize;
        if off > sec.len() {
            return None;
        }
        let rest = &sec[off..];
        let end = rest.iter().position(|b| *b == 0)?;
        Some(rest[..end].to_vec())
    };
    let mut out = Vec::new();
    for (u, pu) in req.units.iter().enumerate() {
        let mut entries = Vec::new();
        for &k in &orders[u] {
            let e = &pu.entries[k];
            let mut attrs: Vec<(u16, String, String)> = Vec::new();
            for a in &e.attrs {
                if SKIPPED.contains(&a.name) || a.name == GNU_LOCVIEWS {
                    continue;
                }
                let m: String = match (a.form, &a.pay) {
                    ("addr", Pay::Num(v)) => {
                        if req.bad == Some(*v as u64) {
                            return Err("bad-address".into());
                        }
                        format!("ADDR:{v}")
                    }
                    ("addrx" | "addrx1" | "addrx2" | "addrx3" | "addrx4" | "gnu_addr_index", Pay::Num(i)) => {
                        let v = req.addrs[*i as usize];
                        if req.bad == Some(v) {
                            return Err("bad-address".into());
                        }
                        format!("ADDR:{v}")
                    }
                    ("sdata" | "implicit_const", Pay::Int(i)) => format!("N:{i}"),
                    ("block1" | "block2" | "block4" | "block" | "exprloc", Pay::Bytes(b)) => format!("B:{}", hex(b)),
                    ("string", Pay::Bytes(b)) => format!("STR:{}", hex(b)),
                    ("strp", Pay::StrIdx(k)) => format!("STR:{}", hex(&req.strs[*k])),
                    ("line_strp", Pay::StrIdx(k)) => format!("STR:{}", hex(&req.lstrs[*k])),
                    ("strp", Pay::StrOff(o)) => format!("STR:{}", hex(&str_at(&req.strs, *o).ok_or("dangling-string")?)),
                    ("line_strp", Pay::StrOff(o)) => format!("STR:{}", hex(&str_at(&req.lstrs, *o).ok_or("dangling-string")?)),
                    ("strx" | "strx1" | "strx2" | "strx3" | "strx4" | "gnu_str_index", Pay::Num(i)) => {
                        format!("STR:{}", hex(&req.strs[req.xs[*i as usize]]))
                    }
                    ("flag" | "flag_present", Pay::Flag(b)) => format!("F:{}", *b as u8),
                    ("ref1" | "ref2" | "ref4" | "ref8" | "ref_udata", Pay::RefEntry(k)) => format!("REF:{}", pos(u, *k).ok_or("dangling-reference")?),
                    ("ref1" | "ref2" | "ref4" | "ref8" | "ref_udata", _) => return Err("dangling-reference".into()),
                    ("ref_addr", Pay::IRefEntry(u2, k)) => format!("REF:{}", pos(*u2, *k).ok_or("dangling-reference")?),
                    ("ref_addr", _) => return Err("dangling-reference".into()),
                    ("ref_sig8", Pay::Num(v)) => format!("DebugTypesRef:{v}"),
                    ("ref_sup4" | "ref_sup8" | "gnu_ref_alt", Pay::Num(v)) => format!("DebugInfoRefSup:{v}"),
                    ("strp_sup" | "gnu_strp_alt", Pay::Num(v)) => format!("DebugStrRefSup:{v}"),
                    ("sec_offset", Pay::Num(v)) => match a.name {
                        0x43 => format!("DebugMacinfoRef:{v}"),
                        0x79 => format!("DebugMacroRef:{v}"),
                        // a section offset whose section the name does not tell: nothing to preserve
                        _ => return Err("untyped-section-offset".into()),
                    },
                    ("data4", Pay::Num(v)) if pu.format == Format::Dwarf32 && matches!(a.name, 0x43 | 0x79) => {
                        // a data form of offset size under a name of class macptr is the offset
                        format!("{}:{v}", if a.name == 0x43 { "DebugMacinfoRef" } else { "DebugMacroRef" })
                    }
                    ("data8", Pay::Num(v)) if pu.format == Format::Dwarf64 && matches!(a.name, 0x43 | 0x79) => {
                        format!("{}:{v}", if a.name == 0x43 { "DebugMacinfoRef" } else { "DebugMacroRef" })
                    }
                    (_, Pay::Num(v)) => format!("N:{v}"),
                    _ => return Err("?".into()),
                };
                let (k, t) = m.split_once(':').unwrap();
                attrs.push((a.name, k.to_string(), t.to_string()));
            }
            entries.push(LEntry { depth: e.depth as isize, tag: e.tag, sibling: false, attrs });
        }
        out.push(LUnit { version: pu.version, format: pu.format, asz: pu.asz, entries });
    }
    Ok(out)
}

/// compare the meaning of the output listing with the intended one
fn oracle(req: &Req, got: &[LUnit]) -> Option<String> {
    let want = match intended(req) {
        Ok(w) => w,
        Err(why) => return Some(format!("converted-unconvertible {why}")),
    };
    if want.len() != got.len() {
        return Some(format!("forest-differs units {} -> {}", want.len(), got.len()));
    }
    for (u, (w, g)) in want.iter().zip(got.iter()).enumerate() {
        if (w.version, w.format, w.asz) != (g.version, g.format, g.asz) {
            return Some(format!("forest-differs unit {u} encoding"));
        }
        if w.entries.len() != g.entries.len() {
            return Some(format!("forest-differs unit {u}: {} entries -> {}", w.entries.len(), g.entries.len()));
        }
        for (k, (we, ge)) in w.entries.iter().zip(g.entries.iter()).enumerate() {
            if k == 0 && we.depth == ge.depth && we.tag != ge.tag {
                return Some(format!("root-tag-lost unit {u}: tag {:#x} -> {:#x}", we.tag, ge.tag));
            }
            if we.depth != ge.depth || we.tag != ge.tag {
                return Some(format!("forest-differs unit {u} entry {k}: depth {} tag {:#x} -> depth {} tag {:#x}", we.depth, we.tag, ge.depth, ge.tag));
            }
            // `set` semantics: a repeated name keeps its first position and its last value
            let mut wa: Vec<(u16, String)> = Vec::new();
            for (n, kd, t) in &we.attrs {
                let m = format!("{kd}:{t}");
                match wa.iter_mut().find(|x| x.0 == *n) {
                    Some(x) => x.1 = m,
                    None => wa.push((*n, m)),
                }
            }
            let ga: Vec<(u16, String)> = ge.attrs.iter().map(|(n, kd, t)| (*n, coarse(kd, t))).collect();
            if wa.len() != ga.len() {
                return Some(format!("attr-differs unit {u} entry {k}: {} attributes -> {}", wa.len(), ga.len()));
            }
            for (x, y) in wa.iter().zip(ga.iter()) {
                if x.0 != y.0 {
                    return Some(format!("attr-differs unit {u} entry {k}: name {:#x} -> {:#x}", x.0, y.0));
                }
                if x.1 != y.1 {
                    let class = if x.1.starts_with("REF:") { "ref-retargeted" } else { "attr-differs" };
                    return Some(format!("{class} unit {u} entry {k} attr {:#x}: {} -> {}", x.0, x.1, y.1));
                }
            }
        }
    }
    None
}

fn err_name<T: std::fmt::Debug>(e: &T) -> String {
    // `Read(UnexpectedEof(..))` -> UnexpectedEof, `Write(ValueTooLarge)` -> W.ValueTooLarge, `InvalidUnitRef`
    let s = format!("{e:?}");
    if let Some(r) = s.strip_prefix("Read(") {
        return r.split(|c: char| c == '(' || c == ')' || c == ' ').next().unwrap_or("").to_string();
    }
    if let Some(r) = s.strip_prefix("Write(") {
        return format!("W.{}", r.split(|c: char| c == '(' || c == ')' || c == ' ').next().unwrap_or(""));
    }
    s.split(|c: char| c == '(' || c == ' ').next().unwrap_or("").to_string()
}

fn load<'a>(s: &'a Sections0, e: RunTimeEndian) -> read::Dwarf<R<'a>> {
    read::Dwarf::load(|id| -> Result<R<'a>, ()> {
        let d: &[u8] = match id {
            SectionId::DebugInfo => &s.info,
            SectionId::DebugAbbrev => &s.abbrev,
            SectionId::DebugStr => &s.str_,
            SectionId::DebugLineStr => &s.line_str,
            SectionId::DebugStrOffsets => &s.str_offsets,
            SectionId::DebugAddr => &s.addr,
            _ => &[],
        };
        Ok(EndianSlice::new(d, e))
    })
    .unwrap()
}

pub fn handle(op: &str, a: &[&str]) -> Option<String> {
    if op != "c12unit" {
        return None;
    }
    match std::panic::catch_unwind(std::panic::AssertUnwindSafe(|| handle_inner(a))) {
        Ok(r) => r,
        Err(p) => {
            let msg = if let Some(s) = p.downcast_ref::<&str>() {
                s.to_string()
            } else if let Some(s) = p.downcast_ref::<String>() {
                s.clone()
            } else {
                "?".into()
            };
            let norm: String = msg.chars().filter(|c| !c.is_ascii_digit()).map(|c| if c == '\n' { ' ' } else { c }).collect();
            Some(format!("panic {norm}"))
        }
    }
}

fn handle_inner(a: &[&str]) -> Option<String> {
    let req = parse(a)?;
    let (secs, _, _) = assemble(&req)?;
    let endian = if req.big { RunTimeEndian::Big } else { RunTimeEndian::Little };
    let input = load(&secs, endian);
    let bad = req.bad;
    let conv = write::Dwarf::from(&input, &|x| if Some(x) == bad { None } else { Some(Address::Constant(x)) });
    let failed = |name: String| -> Option<String> { Some(format!("ok failed:{name}")) };
    let mut w = match conv {
        Ok(w) => w,
        Err(e) => return failed(err_name(&e)),
    };
    let mut out = Sections::new(EndianVec::new(endian));
    if let Err(e) = w.write(&mut out) {
        return failed(format!("W.{}", err_name(&e)));
    }
    let od: read::Dwarf<R> = read::Dwarf::load(|id| -> Result<R, ()> { Ok(EndianSlice::new(out.get(id).map(|w| w.slice()).unwrap_or(&[]), endian)) }).unwrap();
    let listing = match list_output(&od) {
        Ok(l) => l,
        Err(e) => return Some(format!("ok unreadable #oracle:output-unreadable {e}")),
    };
    let s = render_listing(&listing);
    match oracle(&req, &listing) {
        None => Some(s),
        Some(why) => Some(format!("{s} #oracle:{why}")),
    }
}

// ---------------------------------------------------------------------------------------------
// generator
// ---------------------------------------------------------------------------------------------

const INERT: &[u16] = &[0x03, 0x1c, 0x3f, 0x49, 0x47, 0x31, 0x6e, 0x87, 0x2007, 0x3fe1, 0x3fe2, 0x1d, 0x34, 0x27];
const TAGS: &[u16] = &[0x2e, 0x34, 0x13, 0x0b, 0x24, 0x0f, 0x16, 0x05, 0x1d, 0x24, 0x39];

struct G<'a> {
    rng: &'a mut Rng,
    nstr: usize,
    nlstr: usize,
    nx: usize,
    na: usize,
    /// entries per unit
    counts: Vec<usize>,
    small_refs: bool,
    dangling: bool,
}

fn simple_ops(rng: &mut Rng, n: usize) -> Vec<u8> {
    const OPS: &[u8] = &[0x06, 0x12, 0x13, 0x1c, 0x22, 0x30, 0x31, 0x4f, 0x50, 0x6f, 0x96, 0x9c, 0x9f];
    (0..n).map(|_| *rng.pick(OPS)).collect()
}

fn gen_attr(g: &mut G, u: usize, version: u16, asz: u8, fmt64: bool, used: &mut Vec<u16>) -> Option<String> {
    let rng = &mut *g.rng;
    let amask = if asz == 8 { u64::MAX } else { (1u64 << (8 * asz as u32)) - 1 };
    let wmask = if fmt64 { u64::MAX } else { 0xffff_ffff };
    let ind = if rng.chance(1, 12) { "i " } else { "" };
    // choose a name class
    let class = rng.below(20);
    let pick_name = |rng: &mut Rng, pool: &[u16], used: &mut Vec<u16>| -> Option<u16> {
        for _ in 0..6 {
            let n = *rng.pick(pool);
            if !used.contains(&n) {
                used.push(n);
                return Some(n);
            }
        }
        None
    };
    let (name, body): (u16, String) = match class {
        // constant-class names with their natural forms
        0 => (pick_name(rng, &[0x13], used)?, format!("{} {}", rng.pick(&["data1", "data2", "udata"]), rng.below(200))),
        1 => (pick_name(rng, &[0x3e, 0x32, 0x17, 0x4c, 0x20, 0x36, 0x42, 0x09, 0x5e, 0x65], used)?, format!("{} {}", rng.pick(&["data1", "udata"]), rng.below(256))),
        2 => {
            // decl_file / call_file: index 0 (none before DWARF 5) or an index that has no file
            let v = if rng.chance(2, 3) { 0 } else { 1 + rng.below(3) };
            (pick_name(rng, &[0x3a, 0x58], used)?, format!("{} {v}", rng.pick(&["data1", "udata", "data2"])))
        }
        3 => (pick_name(rng, &[0x3b, 0x39, 0x0b, 0x0c, 0x0d, 0x2e, 0x51, 0x12], used)?, format!("{} {}", rng.pick(&["data1", "data2", "udata"]), rng.below(60000) & 0xff)),
        4 => {
            // location class names: expressions in exprloc or block forms
            let n = pick_name(rng, &[0x02, 0x40, 0x2a, 0x19, 0x4d, 0x38, 0x0b, 0x22, 0x2f, 0x50], used)?;
            let k = 1 + rng.below(4) as usize;
            let mut ops = simple_ops(rng, k);
            if n == 0x4d && rng.chance(1, 2) {
                // vtable slots: a lone DW_OP_constu is copied verbatim, anything else is converted
                ops = match rng.below(3) {
                    0 => vec![0x30],
                    1 => vec![0x10, rng.below(128) as u8],
                    _ => vec![0x10, 0x81, 0x01],
                };
            }
            (n, format!("{} {}", rng.pick(&["exprloc", "block1", "block"]), hex(&ops)))
        }
        5 => (pick_name(rng, &[0x11, 0x52], used)?, {
            if g.na > 0 && rng.chance(1, 2) {
                format!("{} {}", rng.pick(&["addrx", "addrx1", "addrx2", "addrx3", "addrx4", "gnu_addr_index"]), rng.below(g.na as u64))
            } else {
                format!("addr {}", rng.boundary_u64() & amask)
            }
        }),
        6 => (pick_name(rng, &[0x43, 0x79], used)?, format!("sec_offset {}", rng.boundary_u64() & wmask)),
        7 => {
            // names on the skip list (never DW_AT_*_base on the root: those steer the reader)
            let n = pick_name(rng, &[0x01, 0x76, 0x2130, 0x2131, 0x2137], used)?;
            let b = match n {
                0x01 => format!("ref4 {}", rng.below(g.counts[u] as u64)),
                0x76 | 0x2130 => format!("string {}", hex(b"x.dwo")),
                0x2131 => format!("data8 {}", rng.next()),
                _ => format!("sec_offset {}", rng.below(100)),
            };
            (n, b)
        }
        8 => (pick_name(rng, INERT, used)?, format!("sec_offset {}", rng.below(1000))),
        // inert names with every form
        _ => {
            let n = pick_name(rng, INERT, used)?;
            let b = match rng.below(30) {
                0 => format!("data1 {}", rng.boundary_u64() & 0xff),
                1 => format!("data2 {}", rng.boundary_u64() & 0xffff),
                2 => format!("data4 {}", rng.boundary_u64() & 0xffff_ffff),
                3 => format!("data8 {}", rng.boundary_u64()),
                4 => format!("data16 {}", ((rng.boundary_u64() as u128) << 64) | rng.boundary_u64() as u128),
                5 => format!("udata {}", rng.boundary_u64()),
                6 => format!("sdata {}", rng.boundary_i64()),
                7 => {
                    if ind.is_empty() { format!("implicit_const {}", rng.boundary_i64()) } else { format!("sdata {}", rng.boundary_i64()) }
                }
                8 => format!("{} {}", rng.pick(&["block1", "block2", "block4", "block"]), hex(&rng.bytes_below(12))),
                9 => format!("exprloc {}", hex(&{
                    let k = rng.below(5) as usize;
                    simple_ops(rng, k)
                })),
                10 => format!("string {}", hex(&(0..rng.below(6)).map(|_| 1 + (rng.next() % 255) as u8).collect::<Vec<u8>>())),
                11 | 12 => {
                    if g.nstr == 0 {
                        return None;
                    }
                    if g.dangling && rng.chance(1, 6) { format!("strp !{}", rng.below(60)) } else { format!("strp {}", rng.below(g.nstr as u64)) }
                }
                13 => {
                    if g.nlstr == 0 {
                        return None;
                    }
                    format!("line_strp {}", rng.below(g.nlstr as u64))
                }
                14 | 15 => {
                    if g.nx == 0 {
                        return None;
                    }
                    format!("{} {}", rng.pick(&["strx", "strx1", "strx2", "strx3", "strx4", "gnu_str_index"]), rng.below(g.nx as u64))
                }
                16 => format!("flag {}", rng.below(2)),
                17 => "flag_present".into(),
                18 | 19 | 20 | 21 => {
                    let f = if g.small_refs { *rng.pick(&["ref1", "ref2", "ref4", "ref8", "ref_udata"]) } else { *rng.pick(&["ref4", "ref8", "ref_udata"]) };
                    let t = if g.dangling && rng.chance(1, 5) {
                        match rng.below(4) {
                            0 => "oob".to_string(),
                            1 => format!("n{}", rng.below(g.counts[u] as u64)),
                            2 => format!("m{}", rng.below(g.counts[u] as u64)),
                            _ => format!("{}", g.counts[u] + rng.below(3) as usize),
                        }
                    } else {
                        format!("{}", rng.below(g.counts[u] as u64))
                    };
                    format!("{f} {t}")
                }
                22 | 23 | 24 => {
                    // v2: ref_addr has the address size
                    if version == 2 && asz < 4 {
                        return None;
                    }
                    if g.dangling && rng.chance(1, 6) {
                        "ref_addr oob".to_string()
                    } else {
                        let u2 = rng.below(g.counts.len() as u64) as usize;
                        format!("ref_addr {u2}.{}", rng.below(g.counts[u2] as u64))
                    }
                }
                25 => format!("ref_sig8 {}", rng.boundary_u64()),
                26 => format!("{} {}", rng.pick(&["ref_sup4", "ref_sup8", "gnu_ref_alt"]), rng.boundary_u64() & 0xffff_ffff),
                27 => format!("{} {}", rng.pick(&["strp_sup", "gnu_strp_alt"]), rng.boundary_u64() & wmask),
                28 => format!("addr {}", rng.boundary_u64() & amask),
                _ => format!("udata {}", rng.below(300)),
            };
            (n, b)
        }
    };
    Some(format!("{name} {ind}{body}"))
}

fn gen_case(rng: &mut Rng, small_refs: bool) -> String {
    let e = if rng.chance(1, 2) { "le" } else { "be" };
    let dangling = rng.chance(1, 6);
    let nstr = rng.below(5) as usize;
    let strs: Vec<Vec<u8>> = (0..nstr).map(|i| (0..rng.below(6)).map(|_| b'a' + ((rng.next() as usize + i) % 26) as u8).collect()).collect();
    let nlstr = rng.below(3) as usize;
    let nx = if nstr > 0 { rng.below(4) as usize } else { 0 };
    let na = rng.below(4) as usize;
    let many = rng.chance(1, 3);
    let nu = 1 + rng.below(if many { 3 } else { 1 }) as usize;
    // address sizes first (the address table must fit all of them)
    let aszs: Vec<u8> = (0..nu).map(|_| *rng.pick(&[1u8, 2, 4, 4, 8, 8, 8])).collect();
    let minbits = aszs.iter().map(|a| 8 * *a as u32).min().unwrap();
    let addrs: Vec<u64> = (0..na).map(|_| rng.boundary_u64() & if minbits == 64 { u64::MAX } else { (1u64 << minbits) - 1 }).collect();
    let bad = if rng.chance(1, 8) {
        if na > 0 && rng.chance(1, 2) { Some(addrs[0]) } else { Some(rng.below(300)) }
    } else {
        None
    };
    let mut line = format!("c12unit {e} {} S {nstr}", bad.map(|b| b.to_string()).unwrap_or("-".into()));
    for s in &strs {
        line += &format!(" {}", hex(s));
    }
    line += &format!(" L {nlstr}");
    for i in 0..nlstr {
        line += &format!(" {}", hex(format!("l{i}").as_bytes()));
    }
    line += &format!(" X {nx}");
    for _ in 0..nx {
        line += &format!(" {}", rng.below(nstr as u64));
    }
    line += &format!(" A {na}");
    for a in &addrs {
        line += &format!(" {a}");
    }
    line += &format!(" U {nu}");
    let counts: Vec<usize> = (0..nu)
        .map(|_| {
            let cap = if rng.chance(1, 8) { 60 } else { 9 };
            1 + rng.below(cap) as usize
        })
        .collect();
    for u in 0..nu {
        let version = 2 + rng.below(4) as u16;
        let fmt64 = rng.chance(1, 3);
        let asz = aszs[u];
        let utype = if version == 5 { *rng.pick(&[1u8, 1, 1, 3, 2]) } else { 1 };
        let n = counts[u];
        line += &format!(" {version} {} {asz} {utype} {n}", if fmt64 { 64 } else { 32 });
        // depths: a random walk that never returns to 0
        let mut depth = 0usize;
        let mut prev_children = false;
        for k in 0..n {
            let d = if k == 0 {
                0
            } else if prev_children && rng.chance(3, 5) {
                depth + 1
            } else if depth <= 1 {
                1
            } else {
                1 + rng.below(depth as u64) as usize
            };
            // the root needs the children flag to have any
            let d = if k == 1 { 1 } else { d };
            depth = d;
            let children = if k == 0 { n > 1 } else { rng.chance(1, 2) };
            prev_children = children;
            let tag = if k == 0 { if rng.chance(1, 10) { *rng.pick(&[0x3cu16, 0x41, 0x4a]) } else { 0x11 } } else { *rng.pick(TAGS) };
            let mut attrs = Vec::new();
            let mut used = Vec::new();
            let want = rng.below(5) as usize;
            let mut g = G { rng, nstr, nlstr, nx, na, counts: counts.clone(), small_refs, dangling };
            for _ in 0..want {
                if let Some(a) = gen_attr(&mut g, u, version, asz, fmt64, &mut used) {
                    attrs.push(a);
                }
            }
            line += &format!(" {d} {tag} {} {}", children as u8, attrs.len());
            for a in attrs {
                line += " ";
                line += &a;
            }
        }
    }
    line
}

/// every attribute value kind x every form the reader accepts for it x version x format x address
/// size, on an entry between two others that refer to each other
fn gen_sweep(emit: &mut dyn FnMut(String)) {
    let forms: &[&str] = &[
        "addr 77", "addr 200", "block1 0102", "block2 -", "block4 ff", "block 00", "data1 255", "data2 65535", "data4 4294967295",
        "data8 18446744073709551615", "data16 340282366920938463463374607431768211455", "udata 0", "udata 18446744073709551615",
        "sdata -9223372036854775808", "sdata 63", "implicit_const -1", "implicit_const 9223372036854775807", "exprloc 9c", "exprloc -",
        "string -", "string 616263", "strp 0", "strp 1", "strp !1", "strp !9", "line_strp 0", "strx 0", "strx1 1", "strx2 0", "strx3 1", "strx4 0",
        "gnu_str_index 1", "addrx 0", "addrx1 1", "addrx2 0", "addrx3 1", "addrx4 0", "gnu_addr_index 1", "flag 0", "flag 1", "flag_present",
        "ref1 2", "ref2 0", "ref4 2", "ref8 1", "ref_udata 2", "ref4 oob", "ref4 n0", "ref4 m2", "ref_udata 7", "ref_addr 0.2", "ref_addr 0.0",
        "ref_addr oob", "ref_sig8 81985529216486895", "ref_sup4 7", "ref_sup8 4294967296", "gnu_ref_alt 9", "strp_sup 3", "gnu_strp_alt 4",
        "sec_offset 12", "i data2 7", "i udata 300", "i string 6869", "i ref4 2", "i flag_present", "i strx1 0", "i addrx 1",
    ];
    let names: &[u16] = &[0x3fe1, 0x03, 0x13, 0x3a, 0x02, 0x11, 0x43, 0x01, 0x2131, 0x0b, 0x3e, 0x55];
    let mut i = 0u64;
    for f in forms {
        for name in names {
            // names with a meaning accept only part of the forms in this op (lists are not part of it)
            if LISTY.contains(name) && (f.starts_with("sec_offset") || f.starts_with("data4") || f.starts_with("data8")) {
                continue;
            }
            for version in [2u16, 3, 4, 5] {
                for fmt in [32, 64] {
                    for asz in [4u8, 8] {
                        i += 1;
                        if *name != 0x3fe1 && i % 3 != 0 {
                            continue;
                        }
                        let e = if i % 2 == 0 { "le" } else { "be" };
                        let bad = if i % 11 == 0 { "200" } else { "-" };
                        emit(format!(
                            "c12unit {e} {bad} S 2 666f6f 6261 L 1 6c73 X 2 1 0 A 2 77 200 U 1 {version} {fmt} {asz} 1 4 0 17 1 1 16353 ref4 3 1 46 1 2 {name} {f} 73 ref4 3 2 52 0 1 73 ref_udata 1 1 36 0 1 62 data1 5"
                        ));
                    }
                }
            }
        }
    }
}

pub fn gen(ctx: &Ctx, emit: &mut dyn FnMut(String)) {
    let mut rng = ctx.rng(1212);
    gen_sweep(emit);
    let n = ctx.n(9000, 150_000);
    for _ in 0..n {
        // a case whose small reference forms do not fit is regenerated without them
        let mut r2 = rng.clone();
        let line = gen_case(&mut rng, true);
        let toks: Vec<&str> = line.split_ascii_whitespace().collect();
        let ok = parse(&toks[1..]).and_then(|r| assemble(&r)).is_some();
        if ok {
            emit(line);
        } else {
            let line = gen_case(&mut r2, false);
            let toks: Vec<&str> = line.split_ascii_whitespace().collect();
            if parse(&toks[1..]).and_then(|r| assemble(&r)).is_some() {
                emit(line);
            }
        }
    }
    let _ = Tier::Quick;
}
