//! C12, line-program component: `write::Dwarf::from` + write preserves the line rows (all
//! registers, files compared as resolved directory / name / info) and the file table as seen
//! through `DW_AT_decl_file`-style indices — or fails.
//!
//! `c12-line <mode> <e> <fmt> <ver> <asz> <comp_dir|~> <comp_name|~> <decl,..|-> <debug_line> <debug_line_str|-> <debug_str|->`
//! The sections come from the assembler below (independent of `gimli::write`); the harness wraps
//! them in a minimal unit (CU DIE with DW_AT_name / DW_AT_comp_dir / DW_AT_stmt_list and one
//! DW_TAG_variable child per `decl` index carrying DW_AT_decl_file).  Reply:
//!   `ok input-rejected` | `ok failed:<ConvertError>` | `ok in=<listing> out=<listing>` | `panic …`
//! listing := `none` | `<row;row;…|-> / <decl,decl,…|->`,
//! row := `addr,op,line,col,flags,isa,disc,FILE`, FILE := `dir:name:ts:size:md5:src|~` in hex or `?<index>`.
//! The Lean side (Drv/C12Line.lean) predicts the whole reply from Model/ConvLineRows.lean.
//! Direct oracle (independent of the Model): in-listing = out-listing
//! (`#oracle:rows-differ`, `#oracle:file-differs`), `#oracle:convert-panics`.
use crate::prop::c04::{encode_prog, uleb, I, P};
use crate::prop::{Ctx, Tier};
use crate::util::{hex, rerr, unhex, werr, Rng};
use gimli::read::{self, EndianSlice};
use gimli::write::{self, Address, EndianVec, Sections};
use gimli::RunTimeEndian;
use std::panic::{catch_unwind, AssertUnwindSafe};

type R<'a> = EndianSlice<'a, RunTimeEndian>;
type Secs = Vec<(String, Vec<u8>)>;

fn put(out: &mut Vec<u8>, big: bool, n: usize, v: u64) {
    let b = v.to_le_bytes();
    if big {
        for i in (0..n).rev() {
            out.push(b[i]);
        }
    } else {
        out.extend_from_slice(&b[..n]);
    }
}

fn load<'a>(secs: &'a Secs, e: RunTimeEndian) -> read::Dwarf<R<'a>> {
    static EMPTY: [u8; 0] = [];
    read::Dwarf::load(|id| -> Result<R<'a>, ()> {
        let name = id.name().trim_start_matches('.');
        let data: &'a [u8] = secs.iter().find(|(n, _)| n == name).map(|(_, d)| &d[..]).unwrap_or(&EMPTY);
        Ok(R::new(data, e))
    })
    .unwrap()
}

// ---------------------------------------------------------------------------------------------
// the minimal unit around a line program
// ---------------------------------------------------------------------------------------------

fn build_unit(big: bool, ver: u16, asz: u8, cd: Option<&[u8]>, cn: Option<&[u8]>, decls: &[u64]) -> (Vec<u8>, Vec<u8>) {
    // abbreviations
    let mut abbrev = vec![1u8, 0x11, if decls.is_empty() { 0 } else { 1 }];
    if cn.is_some() {
        abbrev.extend_from_slice(&[0x03, 0x08]);
    }
    if cd.is_some() {
        abbrev.extend_from_slice(&[0x1b, 0x08]);
    }
    abbrev.extend_from_slice(&[0x10, if ver >= 4 { 0x17 } else { 0x06 }, 0, 0]);
    abbrev.extend_from_slice(&[2, 0x34, 0, 0x3a, 0x0f, 0, 0, 0]);
    // DIEs
    let mut dies = vec![1u8];
    if let Some(n) = cn {
        dies.extend_from_slice(n);
        dies.push(0);
    }
    if let Some(d) = cd {
        dies.extend_from_slice(d);
        dies.push(0);
    }
    put(&mut dies, big, 4, 0);
    if !decls.is_empty() {
        for d in decls {
            dies.push(2);
            uleb(&mut dies, *d);
        }
        dies.push(0);
    }
    let mut body = Vec::new();
    put(&mut body, big, 2, ver as u64);
    if ver >= 5 {
        body.push(1); // DW_UT_compile
        body.push(asz);
        put(&mut body, big, 4, 0);
    } else {
        put(&mut body, big, 4, 0);
        body.push(asz);
    }
    body.extend(dies);
    let mut info = Vec::new();
    put(&mut info, big, 4, body.len() as u64);
    info.extend(body);
    (abbrev, info)
}

// ---------------------------------------------------------------------------------------------
// listing (what the data means, through gimli::read only)
// ---------------------------------------------------------------------------------------------

fn resolve<'a>(dwarf: &read::Dwarf<R<'a>>, unit: &read::Unit<R<'a>>, v: read::AttributeValue<R<'a>>) -> Option<Vec<u8>> {
    dwarf.attr_string(unit, v).ok().map(|r| r.slice().to_vec())
}

fn file_text<'a>(dwarf: &read::Dwarf<R<'a>>, unit: &read::Unit<R<'a>>, h: &read::LineProgramHeader<R<'a>>, idx: u64) -> String {
    match h.file(idx) {
        None => format!("?{idx}"),
        Some(f) => {
            let dir = h.directory(f.directory_index()).and_then(|d| resolve(dwarf, unit, d)).map(|d| hex(&d)).unwrap_or("?".into());
            let name = resolve(dwarf, unit, f.path_name()).map(|d| hex(&d)).unwrap_or("?".into());
            let src = match f.source() {
                None => "~".to_string(),
                Some(s) => resolve(dwarf, unit, s).map(|d| hex(&d)).unwrap_or("?".into()),
            };
            format!("{dir}:{name}:{}:{}:{}:{src}", f.timestamp(), f.size(), hex(f.md5()))
        }
    }
}

/// (rows part, decl part) or "none"
fn listing(secs: &Secs, e: RunTimeEndian) -> Result<(String, String), String> {
    let dwarf = load(secs, e);
    let mut units = dwarf.units();
    let header = units.next().map_err(|e| rerr(&e))?.ok_or("no unit")?;
    let unit = dwarf.unit(header).map_err(|e| rerr(&e))?;
    let ver = unit.encoding().version;
    // decl_file attributes of the children
    let mut decl_idx: Vec<u64> = Vec::new();
    {
        let mut c = unit.entries();
        let mut first = true;
        while let Some(entry) = c.next_dfs().map_err(|e| rerr(&e))? {
            if first {
                first = false;
                continue;
            }
            if let Some(read::AttributeValue::FileIndex(v)) = entry.attr_value(gimli::DW_AT_decl_file) {
                decl_idx.push(v);
            }
        }
    }
    let decl_text = |h: Option<&read::LineProgramHeader<R>>| -> String {
        if decl_idx.is_empty() {
            return "-".to_string();
        }
        decl_idx
            .iter()
            .map(|d| {
                if *d == 0 && ver <= 4 {
                    "0".to_string()
                } else {
                    match h {
                        Some(h) => file_text(&dwarf, &unit, h, *d),
                        None => format!("?{d}"),
                    }
                }
            })
            .collect::<Vec<_>>()
            .join(",")
    };
    let Some(program) = unit.line_program.clone() else {
        return Ok(("none".into(), decl_text(None)));
    };
    let mut rows = program.rows();
    let mut raw: Vec<(String, u64)> = Vec::new();
    let mut guard = 0;
    loop {
        guard += 1;
        if guard > 100_000 {
            return Err("steps".into());
        }
        match rows.next_row() {
            Ok(Some((_, r))) => {
                let flags = (r.is_stmt() as u64) | (r.basic_block() as u64) << 1 | (r.end_sequence() as u64) << 2 | (r.prologue_end() as u64) << 3 | (r.epilogue_begin() as u64) << 4;
                let col = match r.column() {
                    read::ColumnType::LeftEdge => 0,
                    read::ColumnType::Column(c) => c.get(),
                };
                raw.push((format!("{},{},{},{},{},{},{}", r.address(), r.op_index(), r.line().map(|l| l.get()).unwrap_or(0), col, flags, r.isa(), r.discriminator()), r.file_index()));
            }
            Ok(None) => break,
            Err(e) => return Err(rerr(&e)),
        }
    }
    let h = rows.header();
    let rows_s = if raw.is_empty() { "-".to_string() } else { raw.iter().map(|(t, f)| format!("{t},{}", file_text(&dwarf, &unit, h, *f))).collect::<Vec<_>>().join(";") };
    let decl_s = decl_text(Some(h));
    Ok((rows_s, decl_s))
}

/// input features that decide which recorded finding a failure belongs to (read with gimli::read):
/// (a `DW_LNS_fixed_advance_pc 0` in a VLIW program (max_ops > 1): the operation pointer can go backwards,
///  two file entries — header or DW_LNE_define_file — have the same directory text and name)
fn input_features(secs: &Secs, e: RunTimeEndian) -> (bool, bool) {
    let dwarf = load(secs, e);
    let mut units = dwarf.units();
    let Ok(Some(header)) = units.next() else { return (false, false) };
    let Ok(unit) = dwarf.unit(header) else { return (false, false) };
    let Some(program) = unit.line_program.clone() else { return (false, false) };
    let h = program.header();
    let maxops = h.maximum_operations_per_instruction() as u64;
    let mut fap0 = false;
    let mut keys: Vec<(Option<Vec<u8>>, Option<Vec<u8>>)> = Vec::new();
    let mut key = |f: &read::FileEntry<R>| {
        let d = h.directory(f.directory_index()).and_then(|d| resolve(&dwarf, &unit, d));
        let n = resolve(&dwarf, &unit, f.path_name());
        (d, n)
    };
    for f in h.file_names() {
        keys.push(key(f));
    }
    let mut it = h.instructions();
    while let Ok(Some(i)) = it.next_instruction(h) {
        match i {
            read::LineInstruction::FixedAddPc(0) if maxops > 1 => fap0 = true,
            read::LineInstruction::DefineFile(f) => keys.push(key(&f)),
            _ => {}
        }
    }
    let mut dup = false;
    for i in 0..keys.len() {
        for j in 0..i {
            if keys[i] == keys[j] {
                dup = true;
            }
        }
    }
    (fap0, dup)
}

fn cerr_name(e: &write::ConvertError) -> String {
    match e {
        write::ConvertError::Read(r) => format!("Read:{}", rerr(r)),
        write::ConvertError::Write(w) => format!("Write:{}", werr(w)),
        other => {
            let s = format!("{:?}", other);
            s.split('(').next().unwrap().to_string()
        }
    }
}

fn panic_msg(p: Box<dyn std::any::Any + Send>) -> String {
    if let Some(s) = p.downcast_ref::<&str>() {
        s.to_string()
    } else if let Some(s) = p.downcast_ref::<String>() {
        s.clone()
    } else {
        "?".into()
    }
    .replace('\n', " ")
}

fn opt_hex(s: &str) -> Option<Option<Vec<u8>>> {
    if s == "~" { Some(None) } else { unhex(s).map(Some) }
}

fn op_line(a: &[&str]) -> Option<String> {
    if a.len() != 11 {
        return None;
    }
    let big = match a[1] {
        "le" => false,
        "be" => true,
        _ => return None,
    };
    let e = if big { RunTimeEndian::Big } else { RunTimeEndian::Little };
    let _fmt: u8 = a[2].parse().ok()?;
    let ver: u16 = a[3].parse().ok()?;
    let asz: u8 = a[4].parse().ok()?;
    let cd = opt_hex(a[5])?;
    let cn = opt_hex(a[6])?;
    let decls: Vec<u64> = if a[7] == "-" { vec![] } else { a[7].split(',').map(|x| x.parse().ok()).collect::<Option<Vec<u64>>>()? };
    let line = unhex(a[8])?;
    let line_str = unhex(a[9])?;
    let str_ = unhex(a[10])?;
    let (abbrev, info) = build_unit(big, ver, asz, cd.as_deref(), cn.as_deref(), &decls);
    let secs: Secs = vec![
        ("debug_abbrev".into(), abbrev),
        ("debug_info".into(), info),
        ("debug_line".into(), line),
        ("debug_line_str".into(), line_str),
        ("debug_str".into(), str_),
    ];
    let lin = match listing(&secs, e) {
        Ok(l) => l,
        Err(_) => return Some("ok input-rejected".into()),
    };
    let res = catch_unwind(AssertUnwindSafe(|| -> Result<Secs, String> {
        let dwarf = load(&secs, e);
        let mut w = write::Dwarf::from(&dwarf, &|a| Some(Address::Constant(a))).map_err(|e| cerr_name(&e))?;
        let mut sections = Sections::new(EndianVec::new(e));
        w.write(&mut sections).map_err(|e| format!("Write:{}", werr(&e)))?;
        let mut out = Vec::new();
        let _ = sections.for_each_mut(|id, w| -> Result<(), ()> {
            out.push((id.name().trim_start_matches('.').to_string(), w.slice().to_vec()));
            Ok(())
        });
        Ok(out)
    }));
    let out = match res {
        Err(p) => {
            let m = panic_msg(p);
            let (fap0, _) = input_features(&secs, e);
            let class = if m.contains("subtract with overflow") && fap0 { "panic-op-pointer-backwards" } else { "convert-panics" };
            return Some(format!("panic {m} #oracle:{class} on an input the reader accepts"));
        }
        Ok(Err(name)) => return Some(format!("ok failed:{name}")),
        Ok(Ok(o)) => o,
    };
    let in_s = format!("{} / {}", lin.0, lin.1);
    Some(match listing(&out, e) {
        Err(x) => format!("ok in={in_s} out=? #oracle:output-unreadable {x}"),
        Ok(lout) => {
            let out_s = format!("{} / {}", lout.0, lout.1);
            let mut r = format!("ok in={in_s} out={out_s}");
            // a program without rows and without file references is dropped: nothing to compare.
            // An end_sequence row means "first address past the sequence": its address (and, for
            // VLIW, its op_index) is compared, its other registers are not.
            let parse = |s: &str| -> Vec<(String, String, String)> {
                // (registers compared, op_index of an end row, file)
                if s == "-" || s == "none" {
                    return vec![];
                }
                s.split(';')
                    .map(|r| {
                        let f: Vec<&str> = r.splitn(8, ',').collect();
                        if f.len() < 8 {
                            return (r.to_string(), String::new(), String::new());
                        }
                        let end = f[4].parse::<u64>().map_or(false, |x| x & 4 != 0);
                        if end {
                            (format!("{},E", f[0]), f[1].to_string(), String::new())
                        } else {
                            (f[..7].join(","), String::new(), f[7].to_string())
                        }
                    })
                    .collect()
            };
            let (pi, po) = (parse(&lin.0), parse(&lout.0));
            let regs = |v: &Vec<(String, String, String)>| v.iter().map(|x| x.0.clone()).collect::<Vec<_>>();
            let (_, dup) = input_features(&secs, e);
            let fd = if dup { "file-differs-duplicate" } else { "file-differs" };
            if regs(&pi) != regs(&po) {
                r.push_str(&format!(" #oracle:{} the converted program reads back with other rows", "rows-differ"));
            } else if pi.iter().zip(po.iter()).any(|(x, y)| x.2 != y.2) {
                r.push_str(&format!(" #oracle:{fd} a row resolves to another file entry"));
            } else if lin.1 != lout.1 {
                r.push_str(&format!(" #oracle:{fd} a DW_AT_decl_file resolves to another file entry"));
            } else if pi.iter().zip(po.iter()).any(|(x, y)| x.1 != y.1) {
                r.push_str(" #oracle:end-op-index the end of a sequence reads back with another op_index");
            }
            r
        }
    })
}

pub fn handle(op: &str, a: &[&str]) -> Option<String> {
    match op {
        "c12-line" => op_line(a),
        _ => None,
    }
}

// ---------------------------------------------------------------------------------------------
// assembler for headers with tables (independent of gimli::write)
// ---------------------------------------------------------------------------------------------

#[derive(Clone, Debug)]
struct FileSpec {
    name: Vec<u8>,
    dir: u64,
    ts: u64,
    size: u64,
    md5: [u8; 16],
    src: Option<Vec<u8>>,
}

#[derive(Clone, Debug)]
struct Tables {
    dirs: Vec<Vec<u8>>, // v5: index 0 first; v<=4: include directories (index 1..)
    files: Vec<FileSpec>,
    // version 5 only
    dir_form: u64,  // 0x08 string, 0x1f line_strp, 0x0e strp
    file_form: u64, // same
    src_form: u64,
    dir_idx_form: u64, // 0x0f udata, 0x0b data1, 0x05 data2
    has_ts: bool,
    has_size: bool,
    has_md5: bool,
    has_src: bool,
}

struct StrSecs {
    line_str: Vec<u8>,
    str_: Vec<u8>,
}

impl StrSecs {
    fn add(sec: &mut Vec<u8>, s: &[u8], rng: &mut Rng) -> u64 {
        // reuse an existing copy sometimes (shared strings), otherwise append
        if rng.chance(1, 2) {
            let mut pat = s.to_vec();
            pat.push(0);
            if let Some(pos) = sec.windows(pat.len()).position(|w| w == &pat[..]) {
                if pos == 0 || sec[pos - 1] == 0 {
                    return pos as u64;
                }
            }
        }
        let off = sec.len() as u64;
        sec.extend_from_slice(s);
        sec.push(0);
        off
    }
}

fn put_str(out: &mut Vec<u8>, p: &P, form: u64, s: &[u8], strs: &mut StrSecs, rng: &mut Rng) {
    let w = if p.fmt64 { 8 } else { 4 };
    match form {
        0x1f => {
            let off = StrSecs::add(&mut strs.line_str, s, rng);
            put(out, p.big, w, off)
        }
        0x0e => {
            let off = StrSecs::add(&mut strs.str_, s, rng);
            put(out, p.big, w, off)
        }
        _ => {
            out.extend_from_slice(s);
            out.push(0);
        }
    }
}

fn assemble(p: &P, t: &Tables, prog: &[u8], rng: &mut Rng) -> (Vec<u8>, StrSecs) {
    let mut strs = StrSecs { line_str: Vec::new(), str_: Vec::new() };
    if rng.chance(1, 3) {
        strs.line_str.extend_from_slice(b"pad\0");
        strs.str_.extend_from_slice(b"\0x\0");
    }
    let mut f = Vec::new();
    f.push(p.minlen as u8);
    if p.ver >= 4 {
        f.push(p.maxops as u8);
    }
    f.push(p.stmt as u8);
    f.push(p.lbase as i8 as u8);
    f.push(p.lrange as u8);
    f.push(p.obase as u8);
    f.extend_from_slice(&p.stdlens);
    if p.ver <= 4 {
        for d in &t.dirs {
            f.extend_from_slice(d);
            f.push(0);
        }
        f.push(0);
        for fl in &t.files {
            f.extend_from_slice(&fl.name);
            f.push(0);
            uleb(&mut f, fl.dir);
            uleb(&mut f, fl.ts);
            uleb(&mut f, fl.size);
        }
        f.push(0);
    } else {
        f.push(1);
        uleb(&mut f, 1);
        uleb(&mut f, t.dir_form);
        uleb(&mut f, t.dirs.len() as u64);
        for d in &t.dirs {
            put_str(&mut f, p, t.dir_form, d, &mut strs, rng);
        }
        let count = 2 + t.has_ts as u8 + t.has_size as u8 + t.has_md5 as u8 + t.has_src as u8;
        f.push(count);
        // path first or directory index first
        uleb(&mut f, 1);
        uleb(&mut f, t.file_form);
        uleb(&mut f, 2);
        uleb(&mut f, t.dir_idx_form);
        if t.has_ts {
            uleb(&mut f, 3);
            uleb(&mut f, 0x0f);
        }
        if t.has_size {
            uleb(&mut f, 4);
            uleb(&mut f, 0x0f);
        }
        if t.has_md5 {
            uleb(&mut f, 5);
            uleb(&mut f, 0x1e);
        }
        if t.has_src {
            uleb(&mut f, 0x2001);
            uleb(&mut f, t.src_form);
        }
        uleb(&mut f, t.files.len() as u64);
        for fl in &t.files {
            put_str(&mut f, p, t.file_form, &fl.name, &mut strs, rng);
            match t.dir_idx_form {
                0x0b => f.push(fl.dir as u8),
                0x05 => put(&mut f, p.big, 2, fl.dir),
                _ => uleb(&mut f, fl.dir),
            }
            if t.has_ts {
                uleb(&mut f, fl.ts);
            }
            if t.has_size {
                uleb(&mut f, fl.size);
            }
            if t.has_md5 {
                f.extend_from_slice(&fl.md5);
            }
            if t.has_src {
                put_str(&mut f, p, t.src_form, fl.src.as_deref().unwrap_or(b""), &mut strs, rng);
            }
        }
    }
    let mut body = Vec::new();
    put(&mut body, p.big, 2, p.ver);
    if p.ver >= 5 {
        body.push(p.asz as u8);
        body.push(0);
    }
    put(&mut body, p.big, if p.fmt64 { 8 } else { 4 }, f.len() as u64);
    body.extend(f);
    body.extend_from_slice(prog);
    let mut sec = Vec::new();
    if p.fmt64 {
        put(&mut sec, p.big, 4, 0xffff_ffff);
        put(&mut sec, p.big, 8, body.len() as u64);
    } else {
        put(&mut sec, p.big, 4, body.len() as u64);
    }
    sec.extend(body);
    (sec, strs)
}

// ---------------------------------------------------------------------------------------------
// generator
// ---------------------------------------------------------------------------------------------

const DIRS: &[&str] = &["/w", "src", "inc", "/usr/include", "a", "src"];
const NAMES: &[&str] = &["main.c", "a.h", "b.h", "a", "x.rs", "a.h"];

fn pick_bytes(rng: &mut Rng, pool: &[&str]) -> Vec<u8> {
    if rng.chance(5, 6) {
        pool[rng.below(pool.len() as u64) as usize].as_bytes().to_vec()
    } else {
        let n = rng.range(1, 5) as usize;
        (0..n).map(|_| rng.range(1, 255) as u8).collect()
    }
}

fn gen_params(rng: &mut Rng, odd: bool) -> P {
    let ver = *rng.pick(&[2u64, 3, 4, 4, 5, 5]);
    let (lbase, lrange) = match rng.below(if odd { 12 } else { 9 }) {
        0 => (-5i64, 14u64),
        1 => (-3, 12),
        2 => (-10, 242),
        3 => (-128, 255),
        4 => (0, rng.range(1, 255)),
        5 => (-1, 2),
        6 | 7 | 8 => {
            let lr = rng.range(1, 255);
            (-(rng.below(lr.min(129)) as i64), lr)
        }
        9 => (rng.range(1, 5) as i64, rng.range(1, 20)),  // positive line_base: InvalidLineBase
        10 => (-(rng.range(5, 100) as i64), rng.range(1, 5)), // no special opcode for line advance 0
        _ => (rng.range(0, 255) as i64 - 128, rng.range(1, 255)),
    };
    let obase = if odd && rng.chance(1, 3) { *rng.pick(&[10u64, 14, 1, 4]) } else { 13 };
    let std: [u8; 13] = [0, 1, 1, 1, 1, 0, 0, 0, 1, 0, 0, 1, 2];
    P {
        big: rng.chance(1, 4),
        fmt64: rng.chance(1, 4),
        ver,
        asz: *rng.pick(&[8u64, 8, 4, 4, 2, 1]),
        minlen: *rng.pick(&[1u64, 1, 2, 4]),
        maxops: if ver >= 4 { *rng.pick(&[1u64, 1, 2, 4]) } else { 1 },
        stmt: rng.below(2),
        lbase,
        lrange,
        obase,
        stdlens: std[..(obase as usize - 1)].to_vec(),
    }
}

fn gen_tables(rng: &mut Rng, p: &P, odd: bool) -> Tables {
    let nd = rng.range(if p.ver >= 5 { 1 } else { 0 }, 4) as usize;
    let dirs: Vec<Vec<u8>> = (0..nd).map(|_| pick_bytes(rng, DIRS)).collect();
    let nf = rng.range(if p.ver >= 5 { 1 } else { 0 }, 5) as usize;
    let dir_count = if p.ver >= 5 { nd as u64 } else { nd as u64 + 1 };
    let has_src = p.ver >= 5 && rng.chance(1, 3);
    let files: Vec<FileSpec> = (0..nf)
        .map(|_| FileSpec {
            name: pick_bytes(rng, NAMES),
            dir: if odd && rng.chance(1, 10) { dir_count + rng.below(2) } else { rng.below(dir_count) },
            ts: if rng.chance(1, 2) { 0 } else { rng.below(100000) },
            size: if rng.chance(1, 2) { 0 } else { rng.below(100000) },
            md5: {
                let mut m = [0u8; 16];
                m.copy_from_slice(&rng.bytes(16));
                m
            },
            src: if has_src { Some(if rng.chance(1, 2) { vec![] } else { pick_bytes(rng, NAMES) }) } else { None },
        })
        .collect();
    let sform = |rng: &mut Rng| *rng.pick(&[0x08u64, 0x1f, 0x0e]);
    Tables {
        dirs,
        files,
        dir_form: sform(rng),
        file_form: sform(rng),
        src_form: sform(rng),
        dir_idx_form: *rng.pick(&[0x0fu64, 0x0b, 0x05]),
        has_ts: rng.chance(1, 2),
        has_size: rng.chance(1, 2),
        has_md5: rng.chance(1, 2),
        has_src,
    }
}

fn gen_instrs(rng: &mut Rng, p: &P, t: &Tables, odd: bool) -> Vec<I> {
    let mask: u64 = if p.asz >= 8 { u64::MAX } else { (1u64 << (8 * p.asz)) - 1 };
    let mut is = Vec::new();
    let nseq = rng.range(1, 3);
    let mut nfiles = t.files.len() as u64; // grows with define_file
    for _ in 0..nseq {
        let mut base = rng.below((mask / 4).max(1));
        match rng.below(10) {
            0 => {}
            1 => is.push(I::SetAddress(mask)),          // tombstone from the start
            2 => is.push(I::SetAddress(mask - 1)),
            _ => is.push(I::SetAddress(base)),
        }
        let n = rng.below(9);
        for _ in 0..n {
            match rng.below(30) {
                0..=4 => is.push(I::Copy),
                5..=9 => {
                    let lo = p.obase.min(255);
                    is.push(I::Special(rng.range(lo, 255)))
                }
                10 | 11 => is.push(I::AdvancePc(if rng.chance(1, 8) { rng.below(5000) } else { rng.below(40) })),
                12 | 13 => is.push(I::AdvanceLine(rng.below(60) as i64 - 20)),
                14 | 15 => {
                    // file numbers: mostly valid for the version's convention
                    let f = if p.ver >= 5 { rng.below(nfiles.max(1) + odd as u64) } else { rng.range(if odd { 0 } else { 1 }, nfiles.max(1) + odd as u64) };
                    is.push(I::SetFile(f))
                }
                16 => is.push(I::SetColumn(rng.below(120))),
                17 => is.push(I::NegateStmt),
                18 => is.push(I::BasicBlock),
                19 => is.push(I::ConstAddPc),
                20 => {
                    let k = if rng.chance(1, 8) { 0 } else if rng.chance(2, 3) { rng.below(50) * p.minlen } else { rng.below(300) };
                    is.push(I::FixedAddPc(k))
                }
                21 => is.push(I::PrologueEnd),
                22 => is.push(I::EpilogueBegin),
                23 => is.push(I::SetIsa(rng.below(4))),
                24 => is.push(I::SetDiscriminator(rng.below(9))),
                25 => {
                    // a later set_address: forwards (fine), backwards or a tombstone value
                    match rng.below(6) {
                        0 => is.push(I::SetAddress(base.saturating_sub(rng.range(1, 64)))),
                        1 => is.push(I::SetAddress(*rng.pick(&[mask, mask - 1, 0]))),
                        _ => {
                            base = (base + rng.below(0x400)).min(mask / 2);
                            is.push(I::SetAddress(base + 0x10000.min(mask / 8)));
                            base += 0x10000.min(mask / 8);
                        }
                    }
                }
                26 if p.ver <= 4 => {
                    let name = if odd && rng.chance(1, 6) { vec![] } else { pick_bytes(rng, NAMES) };
                    let dcount = t.dirs.len() as u64 + 1;
                    is.push(I::DefineFile(name, if odd && rng.chance(1, 6) { dcount } else { rng.below(dcount) }, rng.below(1000), rng.below(1000)));
                    nfiles += 1;
                }
                27 if odd => is.push(I::UnknownExt(rng.range(5, 200), rng.bytes_below(4))),
                28 if odd && p.obase > 13 => is.push(I::Unknown1(13, rng.below(100))),
                _ => is.push(I::Copy),
            }
        }
        if !(odd && rng.chance(1, 8)) {
            if rng.chance(1, 3) {
                is.push(I::AdvancePc(rng.below(30)));
            }
            is.push(I::EndSequence);
        }
    }
    is
}

fn opt_tok(b: &Option<Vec<u8>>) -> String {
    match b {
        None => "~".into(),
        Some(v) => hex(v),
    }
}

pub fn gen(ctx: &Ctx, emit: &mut dyn FnMut(String)) {
    let mut rng = ctx.rng(1213);
    let n = ctx.n(14000, 200000);
    for i in 0..n {
        let odd = i % 5 == 4; // boundary / malformed share
        let p = gen_params(&mut rng, odd);
        let t = gen_tables(&mut rng, &p, odd);
        let is = gen_instrs(&mut rng, &p, &t, odd);
        let mut prog = encode_prog(&p, &is);
        if odd && rng.chance(1, 10) && !prog.is_empty() {
            let k = rng.below(prog.len() as u64) as usize;
            prog.truncate(k);
        }
        let (line, strs) = assemble(&p, &t, &prog, &mut rng);
        let cd = if rng.chance(1, 6) { None } else { Some(pick_bytes(&mut rng, DIRS)) };
        let cn = if rng.chance(1, 6) { None } else { Some(pick_bytes(&mut rng, NAMES)) };
        let nfiles = t.files.len() as u64;
        let decls: Vec<u64> = (0..rng.below(4)).map(|_| rng.below(nfiles + 1 + odd as u64)).collect();
        emit(format!(
            "c12-line @MODE@ {} {} {} {} {} {} {} {} {} {}",
            if p.big { "be" } else { "le" },
            if p.fmt64 { 64 } else { 32 },
            p.ver,
            p.asz,
            opt_tok(&cd),
            opt_tok(&cn),
            if decls.is_empty() { "-".to_string() } else { decls.iter().map(|d| d.to_string()).collect::<Vec<_>>().join(",") },
            hex(&line),
            hex(&strs.line_str),
            hex(&strs.str_),
        ));
    }
    let _ = Tier::Quick;
}
