//! C01 — untrusted DWARF never panics, aborts, overflows the stack or hangs.
//!
//! Request:  `c01 <entry> <fail_at|-> <args…>`   Reply: `normal <summary>` | `steps <iter>` |
//! `nostop <iter>` | (`panic …` from the worker's catch_unwind, death/hang seen by the
//! orchestrator).  The Model's reply is always `normal` (that is what the `*_total` theorems
//! claim for the modelled entry points; the others are search-only, see props/C01.json).
//!
//! Every driver walks an entry point the way a consumer would, *ignoring errors* and calling
//! `next()` until `Ok(None)`; the number of calls is capped at `4·len + 64` (`steps`), and the
//! iterators documented as stopping after an error must return `Ok(None)` afterwards (`nostop`).
use crate::prop::{Ctx, Tier};
use crate::readers::{set_fail_at, FailReader};
use crate::util::{hex, unhex, Rng};
use gimli::read::{
    AttributeValue, BaseAddresses, CieOrFde, DebugAbbrev, DebugAddr, DebugAranges,
    DebugCuIndex, DebugFrame, DebugInfo, DebugLine, DebugLoc, DebugLocLists, DebugMacinfo, DebugMacro,
    DebugNames, DebugPubNames, DebugPubTypes, DebugRanges, DebugRngLists, DebugStr, DebugStrOffsets, DebugTuIndex,
    DebugTypes, EhFrame, EhFrameHdr, EvaluationResult, Expression, LocationLists, RangeLists, Reader, UnwindContext,
    UnwindSection, Value, ValueType,
};
use gimli::{DebugAddrBase, DebugAddrIndex, DebugLineOffset, Encoding, Format, RunTimeEndian};

type R<'a> = FailReader<'a>;

pub struct Obs {
    pub bad: Option<String>,
    pub calls: u64,
    pub errs: u64,
    pub items: u64,
}

impl Obs {
    fn new() -> Self {
        Obs { bad: None, calls: 0, errs: 0, items: 0 }
    }
    fn flag(&mut self, s: String) {
        if self.bad.is_none() {
            self.bad = Some(s);
        }
    }
}

/// drain an iterator ignoring errors. `stops`: documented to yield nothing after an error.
fn drain<T>(o: &mut Obs, name: &str, cap: u64, stops: bool, mut next: impl FnMut() -> gimli::Result<Option<T>>, mut each: impl FnMut(&mut Obs, T)) {
    let mut n = 0u64;
    let mut errored = false;
    loop {
        n += 1;
        o.calls += 1;
        if n > cap {
            o.flag(format!("steps {name} calls>{cap}"));
            return;
        }
        match next() {
            Ok(Some(x)) => {
                if errored && stops {
                    o.flag(format!("nostop {name} yielded-after-error"));
                    return;
                }
                o.items += 1;
                each(o, x)
            }
            Ok(None) => return,
            Err(_) => {
                o.errs += 1;
                if errored && stops {
                    o.flag(format!("nostop {name} error-after-error"));
                    return;
                }
                errored = true;
            }
        }
    }
}

fn cap(len: usize) -> u64 {
    4 * len as u64 + 64
}

fn endian(s: &str) -> Option<RunTimeEndian> {
    match s {
        "le" => Some(RunTimeEndian::Little),
        "be" => Some(RunTimeEndian::Big),
        _ => None,
    }
}

/// `<endian>,<addr_size>,<format>,<version>`
fn cfg(s: &str) -> Option<(RunTimeEndian, Encoding)> {
    let p: Vec<&str> = s.split(',').collect();
    if p.len() != 4 {
        return None;
    }
    let e = endian(p[0])?;
    let address_size: u8 = p[1].parse().ok()?;
    let format = match p[2] {
        "32" => Format::Dwarf32,
        "64" => Format::Dwarf64,
        _ => return None,
    };
    let version: u16 = p[3].parse().ok()?;
    Some((e, Encoding { address_size, format, version }))
}

fn bases() -> BaseAddresses {
    BaseAddresses::default().set_eh_frame(0x1000).set_eh_frame_hdr(0x800).set_text(0x4000).set_got(0x8000)
}

// ---------------------------------------------------------------------------------------------
// drivers

fn drive_expr<'a>(o: &mut Obs, bytes: R<'a>, encoding: Encoding, rng: &mut Rng) {
    let total = bytes.len();
    let mut ops = Expression(bytes).operations(encoding);
    drain(o, "OperationIter", cap(total), false, || ops.next(), |_, _| {});
    // evaluation with an iteration limit, answering every request
    for max_iter in [0u32, 1, 7, 200] {
        let mut ev = Expression(bytes).evaluation(encoding);
        ev.set_max_iterations(max_iter);
        if rng.chance(1, 2) {
            ev.set_initial_value(rng.boundary_u64());
        }
        if rng.chance(1, 2) {
            ev.set_object_address(rng.boundary_u64());
        }
        let mut res = ev.evaluate();
        let mut rounds = 0u64;
        loop {
            rounds += 1;
            o.calls += 1;
            if rounds > 4 * (max_iter as u64 + 2) + 64 {
                o.flag(format!("steps Evaluation rounds>{rounds} max_iter={max_iter}"));
                break;
            }
            let r = match res {
                Ok(r) => r,
                Err(_) => {
                    o.errs += 1;
                    break;
                }
            };
            let v = match rng.below(6) {
                0 => Value::Generic(rng.boundary_u64()),
                1 => Value::I8(rng.next() as i8),
                2 => Value::U32(rng.next() as u32),
                3 => Value::I64(rng.boundary_i64()),
                4 => Value::F64(f64::from_bits(rng.boundary_u64())),
                _ => Value::U64(rng.boundary_u64()),
            };
            res = match r {
                EvaluationResult::Complete => {
                    let _ = ev.as_result().len();
                    let _ = ev.value_result();
                    break;
                }
                EvaluationResult::RequiresMemory { .. } => ev.resume_with_memory(v),
                EvaluationResult::RequiresRegister { .. } => ev.resume_with_register(v),
                EvaluationResult::RequiresWasmLocal { .. } | EvaluationResult::RequiresWasmGlobal { .. } | EvaluationResult::RequiresWasmStack { .. } => {
                    ev.resume_with_wasm_value(v)
                }
                EvaluationResult::RequiresFrameBase => ev.resume_with_frame_base(rng.boundary_u64()),
                EvaluationResult::RequiresTls(_) => ev.resume_with_tls(rng.boundary_u64()),
                EvaluationResult::RequiresCallFrameCfa => ev.resume_with_call_frame_cfa(rng.boundary_u64()),
                EvaluationResult::RequiresAtLocation(_) => {
                    // answer with (a slice of) the same bytes: nested calls, possibly recursive
                    let mut b = bytes;
                    let k = rng.below(b.len() as u64 + 1) as usize;
                    let _ = b.skip(k);
                    ev.resume_with_at_location(b)
                }
                EvaluationResult::RequiresEntryValue(e) => {
                    let mut ops = e.operations(encoding);
                    drain(o, "OperationIter(entry_value)", cap(total), false, || ops.next(), |_, _| {});
                    ev.resume_with_entry_value(v)
                }
                EvaluationResult::RequiresParameterRef(_) => ev.resume_with_parameter_ref(rng.boundary_u64()),
                EvaluationResult::RequiresRelocatedAddress(a) => ev.resume_with_relocated_address(a.wrapping_add(rng.below(3))),
                EvaluationResult::RequiresIndexedAddress { .. } => ev.resume_with_indexed_address(rng.boundary_u64()),
                EvaluationResult::RequiresBaseType(_) => ev.resume_with_base_type(*rng.pick(&[
                    ValueType::Generic,
                    ValueType::I8,
                    ValueType::U8,
                    ValueType::I16,
                    ValueType::U16,
                    ValueType::I32,
                    ValueType::U32,
                    ValueType::I64,
                    ValueType::U64,
                    ValueType::F32,
                    ValueType::F64,
                ])),
            };
        }
    }
}

fn drive_attr<'a>(o: &mut Obs, attr: &gimli::read::Attribute<R<'a>>, encoding: Encoding, rng: &mut Rng, depth: u32) {
    let _ = attr.raw_value();
    let v = attr.value();
    let _ = attr.udata_value();
    let _ = attr.sdata_value();
    let _ = attr.offset_value();
    let _ = attr.u8_value();
    let _ = attr.u16_value();
    if let Some(e) = attr.exprloc_value() {
        if depth < 1 {
            drive_expr(o, e.0, encoding, rng);
        }
    }
    if let AttributeValue::Exprloc(e) = v {
        let mut ops = e.operations(encoding);
        drain(o, "OperationIter(attr)", cap(e.0.len()), false, || ops.next(), |_, _| {});
    }
}

fn drive_units<'a>(o: &mut Obs, e: RunTimeEndian, abbrev: &'a [u8], info: &'a [u8], types: bool, rng: &mut Rng) {
    let debug_abbrev = DebugAbbrev::from(R::new(abbrev, e));
    let mut headers = Vec::new();
    if types {
        let s = DebugTypes::from(R::new(info, e));
        let mut it = s.units();
        drain(o, "DebugTypesUnitHeadersIter", cap(info.len()), false, || it.next(), |_, h| headers.push(h));
    } else {
        let s = DebugInfo::from(R::new(info, e));
        let mut it = s.units();
        drain(o, "DebugInfoUnitHeadersIter", cap(info.len()), false, || it.next(), |_, h| headers.push(h));
        // positioned header read
        for off in [0usize, 1, info.len() / 2, info.len(), info.len() + 1, usize::MAX] {
            let _ = s.header_from_offset(gimli::DebugInfoOffset(off));
        }
    }
    for h in headers.iter().take(8) {
        let _ = (h.offset(), h.unit_length(), h.length_including_self(), h.version(), h.type_(), h.header_size(), h.size_of_header());
        let encoding = h.encoding();
        let Ok(abbrevs) = h.abbreviations(&debug_abbrev) else {
            o.errs += 1;
            continue;
        };
        let ulen = h.length_including_self();
        // depth-first cursor
        {
            let mut c = h.entries(&abbrevs);
            let mut n = 0u64;
            loop {
                n += 1;
                o.calls += 1;
                if n > cap(ulen) {
                    o.flag("steps EntriesCursor::next_dfs".into());
                    break;
                }
                match c.next_dfs() {
                    Ok(Some(entry)) => {
                        o.items += 1;
                        let _ = (entry.offset(), entry.depth(), entry.tag(), entry.has_children());
                        let attrs: Vec<_> = entry.attrs().to_vec();
                        for a in attrs.iter().take(64) {
                            drive_attr(o, a, encoding, rng, 0);
                        }
                    }
                    Ok(None) => break,
                    Err(_) => {
                        o.errs += 1;
                        break;
                    }
                }
            }
        }
        // next_entry cursor, ignoring errors
        {
            let mut c = h.entries(&abbrevs);
            let mut n = 0u64;
            loop {
                n += 1;
                o.calls += 1;
                if n > cap(ulen) {
                    o.flag("steps EntriesCursor::next_entry".into());
                    break;
                }
                match c.next_entry() {
                    Ok(true) => {
                        let _ = c.current().map(|e| e.offset());
                    }
                    Ok(false) => break,
                    Err(_) => {
                        o.errs += 1;
                    }
                }
            }
        }
        // sibling walk from the root's first child
        {
            let mut c = h.entries(&abbrevs);
            let _ = c.next_dfs();
            let _ = c.next_dfs();
            let mut n = 0u64;
            loop {
                n += 1;
                o.calls += 1;
                if n > cap(ulen) {
                    o.flag("steps EntriesCursor::next_sibling".into());
                    break;
                }
                match c.next_sibling() {
                    Ok(Some(_)) => {}
                    Ok(None) => break,
                    Err(_) => {
                        o.errs += 1;
                        break;
                    }
                }
            }
        }
        // raw entries, skipping attributes on alternate entries
        if let Ok(mut raw) = h.entries_raw(&abbrevs, None) {
            let mut n = 0u64;
            let mut entry = gimli::read::DebuggingInformationEntry::null();
            while !raw.is_empty() {
                n += 1;
                o.calls += 1;
                if n > cap(ulen) {
                    o.flag("steps EntriesRaw".into());
                    break;
                }
                let _ = (raw.next_offset(), raw.next_depth());
                if n % 2 == 0 {
                    match raw.read_abbreviation() {
                        Ok(Some(ab)) => {
                            if raw.skip_attributes(ab.attributes()).is_err() {
                                o.errs += 1;
                                break;
                            }
                        }
                        Ok(None) => {}
                        Err(_) => {
                            o.errs += 1;
                            break;
                        }
                    }
                } else if raw.read_entry(&mut entry).is_err() {
                    o.errs += 1;
                    break;
                }
            }
        }
        // tree (iterative over the first levels; recursion depth is the harness's own, so bounded)
        if let Ok(mut tree) = h.entries_tree(&abbrevs, None) {
            if let Ok(root) = tree.root() {
                fn walk<'a, 'abbrev, 'me>(o: &mut Obs, node: gimli::read::EntriesTreeNode<'abbrev, 'me, R<'a>>, depth: u32, budget: &mut u64) {
                    let mut ch = node.children();
                    loop {
                        if *budget == 0 {
                            o.flag("steps EntriesTree".into());
                            return;
                        }
                        *budget -= 1;
                        o.calls += 1;
                        match ch.next() {
                            Ok(Some(c)) => {
                                if depth < 200 {
                                    walk(o, c, depth + 1, budget)
                                }
                            }
                            Ok(None) => return,
                            Err(_) => {
                                o.errs += 1;
                                return;
                            }
                        }
                    }
                }
                let mut budget = cap(ulen) * 2;
                walk(o, root, 0, &mut budget);
            }
        }
        // positioned reads
        for off in [0usize, h.header_size(), h.header_size() + 1, ulen / 2, ulen, ulen + 1, usize::MAX] {
            let _ = h.entry(&abbrevs, gimli::UnitOffset(off));
            if let Ok(mut c) = h.entries_at_offset(&abbrevs, gimli::UnitOffset(off)) {
                let _ = c.next_dfs();
            }
            let _ = h.range_from(gimli::UnitOffset(off)..);
            let _ = h.range_to(..gimli::UnitOffset(off));
        }
    }
}

fn drive_line<'a>(o: &mut Obs, e: RunTimeEndian, address_size: u8, bytes: &'a [u8], offset: usize) {
    let s = DebugLine::from(R::new(bytes, e));
    let comp = R::new(b"/comp", e);
    let Ok(program) = s.program(DebugLineOffset(offset), address_size, Some(comp), Some(comp)) else {
        o.errs += 1;
        return;
    };
    {
        let h = program.header();
        let _ = (h.version(), h.line_base(), h.line_range(), h.opcode_base(), h.file_names().len(), h.include_directories().len());
        for i in [0u64, 1, 2, 255, u64::MAX] {
            let _ = h.file(i);
            let _ = h.directory(i);
        }
        let mut ins = h.instructions();
        drain(o, "LineInstructions", cap(bytes.len()), true, || ins.next_instruction(h), |_, _| {});
    }
    {
        let mut rows = program.clone().rows();
        let mut n = 0u64;
        loop {
            n += 1;
            o.calls += 1;
            if n > cap(bytes.len()) {
                o.flag("steps LineRows".into());
                break;
            }
            match rows.next_row() {
                Ok(Some((h, row))) => {
                    o.items += 1;
                    let _ = (row.address(), row.line(), row.column(), row.file(h).is_some(), row.op_index());
                }
                Ok(None) => break,
                Err(_) => {
                    o.errs += 1;
                    break;
                }
            }
        }
    }
    if let Ok((program, seqs)) = program.sequences() {
        for s in seqs.iter().take(16) {
            let mut rows = program.resume_from(s);
            let mut n = 0u64;
            loop {
                n += 1;
                o.calls += 1;
                if n > cap(bytes.len()) {
                    o.flag("steps LineRows(resume)".into());
                    break;
                }
                match rows.next_row() {
                    Ok(Some(_)) => {}
                    Ok(None) => break,
                    Err(_) => {
                        o.errs += 1;
                        break;
                    }
                }
            }
        }
    } else {
        o.errs += 1;
    }
}

fn drive_frame_section<'a, S: UnwindSection<R<'a>>>(o: &mut Obs, section: &S, len: usize, probes: &[u64])
where
    S::Offset: gimli::read::UnwindOffset<usize>,
{
    let b = bases();
    let mut entries = section.entries(&b);
    let mut ctx = UnwindContext::new();
    let mut fdes = 0;
    let mut n = 0u64;
    loop {
        n += 1;
        o.calls += 1;
        if n > cap(len) {
            o.flag("steps CfiEntriesIter".into());
            break;
        }
        match entries.next() {
            Ok(None) => break,
            Err(_) => {
                o.errs += 1;
            }
            Ok(Some(CieOrFde::Cie(cie))) => {
                o.items += 1;
                let _ = (cie.offset(), cie.version(), cie.code_alignment_factor(), cie.data_alignment_factor(), cie.personality(), cie.lsda_encoding());
                let mut ins = cie.instructions(section, &b);
                drain(o, "CallFrameInstructionIter(cie)", cap(len), false, || ins.next(), |_, _| {});
            }
            Ok(Some(CieOrFde::Fde(partial))) => {
                o.items += 1;
                let _ = (partial.offset(), partial.entry_len());
                match partial.parse(|s, b, off| s.cie_from_offset(b, off)) {
                    Ok(fde) => {
                        fdes += 1;
                        let _ = (fde.initial_address(), fde.len(), fde.end_address(), fde.lsda(), fde.personality(), fde.contains(0));
                        let mut ins = fde.instructions(section, &b);
                        drain(o, "CallFrameInstructionIter(fde)", cap(len), false, || ins.next(), |_, _| {});
                        if fdes <= 8 {
                            if let Ok(mut table) = fde.rows(section, &b, &mut ctx) {
                                let mut k = 0u64;
                                loop {
                                    k += 1;
                                    o.calls += 1;
                                    if k > cap(len) {
                                        o.flag("steps UnwindTable".into());
                                        break;
                                    }
                                    match table.next_row() {
                                        Ok(Some(row)) => {
                                            let _ = (row.start_address(), row.end_address(), row.cfa().clone(), row.saved_args_size());
                                            let _ = row.registers().count();
                                        }
                                        Ok(None) => break,
                                        Err(_) => {
                                            o.errs += 1;
                                            break;
                                        }
                                    }
                                }
                            }
                            let a = fde.initial_address();
                            let _ = fde.unwind_info_for_address(section, &b, &mut ctx, a);
                            let _ = fde.unwind_info_for_address(section, &b, &mut ctx, a.wrapping_add(fde.len() / 2));
                        }
                    }
                    Err(_) => o.errs += 1,
                }
            }
        }
    }
    for &a in probes {
        let _ = section.fde_for_address(&b, a, |s, b, off| s.cie_from_offset(b, off));
        let _ = section.unwind_info_for_address(&b, &mut ctx, a, |s, b, off| s.cie_from_offset(b, off));
    }
}

fn drive_ehhdr<'a>(o: &mut Obs, e: RunTimeEndian, address_size: u8, hdr: &'a [u8], frame: &'a [u8], probes: &[u64]) {
    let b = bases();
    let h = EhFrameHdr::from(R::new(hdr, e));
    let Ok(parsed) = h.parse(&b, address_size) else {
        o.errs += 1;
        return;
    };
    let _ = parsed.eh_frame_ptr();
    let Some(table) = parsed.table() else { return };
    let mut it = table.iter(&b);
    drain(o, "EhHdrTableIter", cap(hdr.len()), false, || it.next(), |_, _| {});
    for n in [0usize, 1, 2, hdr.len(), usize::MAX / 2, usize::MAX] {
        let mut it = table.iter(&b);
        let _ = it.nth(n);
        let _ = it.next();
    }
    let mut eh = EhFrame::from(R::new(frame, e));
    eh.set_address_size(address_size);
    let mut ctx = UnwindContext::new();
    for &a in probes {
        if let Ok(p) = table.lookup(a, &b) {
            let _ = table.pointer_to_offset(p);
        } else {
            o.errs += 1;
        }
        let _ = table.fde_for_address(&eh, &b, a, |s, b, off| s.cie_from_offset(b, off));
        let _ = table.unwind_info_for_address(&eh, &b, &mut ctx, a, |s, b, off| s.cie_from_offset(b, off));
    }
    for p in [gimli::read::Pointer::Direct(0), gimli::read::Pointer::Direct(u64::MAX), gimli::read::Pointer::Indirect(5)] {
        let _ = table.pointer_to_offset(p);
    }
}

fn drive_rnglists<'a>(o: &mut Obs, e: RunTimeEndian, encoding: Encoding, lists: &'a [u8], addr: &'a [u8], offset: usize, rng: &mut Rng) {
    let ranges = DebugRanges::from(R::new(if encoding.version <= 4 { lists } else { &[] }, e));
    let rnglists = DebugRngLists::from(R::new(if encoding.version > 4 { lists } else { &[] }, e));
    let rl = RangeLists::new(ranges, rnglists);
    let debug_addr = DebugAddr::from(R::new(addr, e));
    if let Ok(mut raw) = rl.raw_ranges(gimli::RangeListsOffset(offset), encoding) {
        drain(o, "RawRngListIter", cap(lists.len()), false, || raw.next(), |_, _| {});
    }
    for base in [0u64, 0x1000, u64::MAX, rng.boundary_u64()] {
        if let Ok(mut it) = rl.ranges(gimli::RangeListsOffset(offset), encoding, base, &debug_addr, DebugAddrBase(rng.below(addr.len() as u64 + 2) as usize)) {
            drain(o, "RngListIter", cap(lists.len()), false, || it.next(), |_, _| {});
        }
    }
    for (b, i) in [(0usize, 0usize), (8, 1), (12, usize::MAX / 2), (usize::MAX, 1), (lists.len(), usize::MAX), (rng.boundary_u64() as usize, rng.boundary_u64() as usize)] {
        let _ = rl.get_offset(encoding, gimli::DebugRngListsBase(b), gimli::DebugRngListsIndex(i));
    }
}

fn drive_loclists<'a>(o: &mut Obs, e: RunTimeEndian, encoding: Encoding, lists: &'a [u8], addr: &'a [u8], offset: usize, rng: &mut Rng) {
    let loc = DebugLoc::from(R::new(if encoding.version <= 4 { lists } else { &[] }, e));
    let loclists = DebugLocLists::from(R::new(if encoding.version > 4 { lists } else { &[] }, e));
    let ll = LocationLists::new(loc, loclists);
    let debug_addr = DebugAddr::from(R::new(addr, e));
    if let Ok(mut raw) = ll.raw_locations(gimli::LocationListsOffset(offset), encoding) {
        drain(o, "RawLocListIter", cap(lists.len()), false, || raw.next(), |_, _| {});
    }
    if let Ok(mut raw) = ll.raw_locations_dwo(gimli::LocationListsOffset(offset), encoding) {
        drain(o, "RawLocListIter(dwo)", cap(lists.len()), false, || raw.next(), |_, _| {});
    }
    for base in [0u64, 0x1000, u64::MAX, rng.boundary_u64()] {
        let ab = DebugAddrBase(rng.below(addr.len() as u64 + 2) as usize);
        if let Ok(mut it) = ll.locations(gimli::LocationListsOffset(offset), encoding, base, &debug_addr, ab) {
            drain(o, "LocListIter", cap(lists.len()), false, || it.next(), |_, _| {});
        }
        if let Ok(mut it) = ll.locations_dwo(gimli::LocationListsOffset(offset), encoding, base, &debug_addr, ab) {
            drain(o, "LocListIter(dwo)", cap(lists.len()), false, || it.next(), |_, _| {});
        }
    }
    for (b, i) in [(0usize, 0usize), (8, 1), (12, usize::MAX / 2), (usize::MAX, 1), (lists.len(), usize::MAX)] {
        let _ = ll.get_offset(encoding, gimli::DebugLocListsBase(b), gimli::DebugLocListsIndex(i));
    }
}

fn drive_aranges<'a>(o: &mut Obs, e: RunTimeEndian, bytes: &'a [u8]) {
    let s = DebugAranges::from(R::new(bytes, e));
    let mut hs = Vec::new();
    let mut it = s.headers();
    drain(o, "ArangeHeaderIter", cap(bytes.len()), false, || it.next(), |_, h| hs.push(h));
    for off in [0usize, 1, bytes.len(), usize::MAX] {
        if let Ok(h) = s.header(gimli::DebugArangesOffset(off)) {
            hs.push(h);
        }
    }
    for h in hs.iter().take(8) {
        let _ = (h.offset(), h.length(), h.encoding(), h.debug_info_offset());
        let mut es = h.entries();
        drain(o, "ArangeEntryIter", cap(bytes.len()), true, || es.next(), |_, _| {});
        let mut es = h.entries();
        drain(o, "ArangeEntryIter(raw)", cap(bytes.len()), true, || es.next_raw(), |_, _| {});
    }
}

fn drive_addr<'a>(o: &mut Obs, e: RunTimeEndian, address_size: u8, bytes: &'a [u8], base: usize, index: usize) {
    let s = DebugAddr::from(R::new(bytes, e));
    let _ = s.get_address(address_size, DebugAddrBase(base), DebugAddrIndex(index));
    let mut hs = Vec::new();
    let mut it = s.headers();
    drain(o, "AddrHeaderIter", cap(bytes.len()), false, || it.next(), |_, h| hs.push(h));
    for h in hs.iter().take(8) {
        let _ = (h.offset(), h.length(), h.encoding());
        let mut es = h.entries();
        drain(o, "AddrEntryIter", cap(bytes.len()), true, || es.next(), |_, _| {});
    }
}

fn drive_index<'a>(o: &mut Obs, e: RunTimeEndian, bytes: &'a [u8], rng: &mut Rng) {
    for tu in [false, true] {
        let idx = if tu { DebugTuIndex::from(R::new(bytes, e)).index() } else { DebugCuIndex::from(R::new(bytes, e)).index() };
        let Ok(idx) = idx else {
            o.errs += 1;
            continue;
        };
        let _ = (idx.version(), idx.section_count(), idx.unit_count(), idx.slot_count());
        for id in [0u64, 1, u64::MAX, rng.next(), rng.boundary_u64()] {
            let _ = idx.find(id);
        }
        // ids actually present in the table
        if bytes.len() >= 24 {
            for k in 0..((bytes.len() - 16) / 8).min(16) {
                let mut b = [0u8; 8];
                b.copy_from_slice(&bytes[16 + 8 * k..24 + 8 * k]);
                let id = if e == RunTimeEndian::Little { u64::from_le_bytes(b) } else { u64::from_be_bytes(b) };
                let _ = idx.find(id);
            }
        }
        for row in [0u32, 1, 2, idx.unit_count(), idx.unit_count().wrapping_add(1), u32::MAX] {
            if let Ok(secs) = idx.sections(row) {
                let mut n = 0u64;
                for s in secs {
                    n += 1;
                    if n > cap(bytes.len()) {
                        o.flag("steps UnitIndexSectionIterator".into());
                        break;
                    }
                    let _ = (s.section, s.offset, s.size);
                }
            }
        }
    }
}

fn drive_names<'a>(o: &mut Obs, e: RunTimeEndian, bytes: &'a [u8], strs: &'a [u8], rng: &mut Rng) {
    let s = DebugNames::from(R::new(bytes, e));
    let debug_str = DebugStr::from(R::new(strs, e));
    let mut hs = Vec::new();
    let mut it = s.headers();
    drain(o, "NameIndexHeaderIter", cap(bytes.len()), false, || it.next(), |_, h| hs.push(h));
    for h in hs.into_iter().take(4) {
        let _ = (h.offset(), h.length(), h.version(), h.bucket_count(), h.name_count());
        let Ok(idx) = h.index() else {
            o.errs += 1;
            continue;
        };
        for i in [0u32, 1, idx.compile_unit_count(), u32::MAX] {
            let _ = idx.compile_unit(i);
            let _ = idx.local_type_unit(i);
            let _ = idx.foreign_type_unit(i);
            let _ = idx.type_unit(i);
        }
        let _ = idx.default_compile_unit();
        let mut names = idx.names();
        let mut n = 0u64;
        while let Some(ni) = names.next() {
            n += 1;
            if n > cap(bytes.len()) {
                // name_count comes from the header: NameIndex::new must have bounded it by the input
                o.flag("steps NameTableIter".into());
                break;
            }
            if n > 64 {
                continue;
            }
            let _ = idx.name_string_offset(ni);
            let _ = idx.name_string(ni, &debug_str);
            if let Ok(mut es) = idx.name_entries(ni) {
                drain(o, "NameEntryIter", cap(bytes.len()), false, || es.next(), |_, en| {
                    let _ = (en.compile_unit(&idx), en.type_unit(&idx), en.die_offset(), en.parent(), en.type_hash());
                });
            }
        }
        for b in [0u32, 1, idx.bucket_count().wrapping_sub(1), idx.bucket_count(), u32::MAX] {
            if let Ok(Some(mut it)) = idx.find_by_bucket(b) {
                drain(o, "NameBucketIter", cap(bytes.len()), false, || it.next(), |_, _| {});
            }
        }
        for hsh in [0u32, 1, rng.next() as u32, u32::MAX] {
            if let Ok(mut it) = idx.find_by_hash(hsh) {
                drain(o, "NameHashIter", cap(bytes.len()), false, || it.next(), |_, _| {});
            }
        }
        for off in [0usize, 1, bytes.len(), usize::MAX] {
            let _ = idx.name_entry(gimli::read::NameEntryOffset(off));
        }
    }
}

fn drive_macros<'a>(o: &mut Obs, e: RunTimeEndian, bytes: &'a [u8], offset: usize, macinfo: bool) {
    let it = if macinfo {
        DebugMacinfo::from(R::new(bytes, e)).get_macinfo(gimli::DebugMacinfoOffset(offset))
    } else {
        DebugMacro::from(R::new(bytes, e)).get_macros(gimli::DebugMacroOffset(offset))
    };
    if let Ok(mut it) = it {
        drain(o, if macinfo { "MacroIter(macinfo)" } else { "MacroIter(macro)" }, cap(bytes.len()), false, || it.next(), |_, _| {});
    } else {
        o.errs += 1;
    }
}

/// sections: `name=hex;name=hex;…` with names as in `SectionId::name()` minus the dot
fn parse_sections(s: &str) -> Option<Vec<(String, Vec<u8>)>> {
    let mut v = Vec::new();
    for part in s.split(';') {
        if part.is_empty() {
            continue;
        }
        let (n, h) = part.split_once('=')?;
        v.push((n.to_string(), unhex(h)?));
    }
    Some(v)
}

fn load_dwarf<'a>(secs: &'a [(String, Vec<u8>)], e: RunTimeEndian) -> gimli::read::Dwarf<R<'a>> {
    static EMPTY: [u8; 0] = [];
    gimli::read::Dwarf::load(|id| -> Result<R<'a>, ()> {
        let name = id.name().trim_start_matches('.');
        let data: &'a [u8] = secs.iter().find(|(n, _)| n == name).map(|(_, d)| &d[..]).unwrap_or(&EMPTY);
        Ok(R::new(data, e))
    })
    .unwrap()
}

fn drive_dwarf<'a>(o: &mut Obs, secs: &'a [(String, Vec<u8>)], e: RunTimeEndian, rng: &mut Rng) {
    let total: usize = secs.iter().map(|s| s.1.len()).sum();
    let mut dwarf = load_dwarf(secs, e);
    if rng.chance(1, 3) {
        dwarf.populate_abbreviations_cache(gimli::read::AbbreviationsCacheStrategy::All);
    }
    let mut headers = Vec::new();
    let mut it = dwarf.units();
    drain(o, "Dwarf::units", cap(total), false, || it.next(), |_, h| headers.push(h));
    let mut it = dwarf.type_units();
    drain(o, "Dwarf::type_units", cap(total), false, || it.next(), |_, h| headers.push(h));
    for h in headers.into_iter().take(6) {
        let Ok(unit) = dwarf.unit(h) else {
            o.errs += 1;
            continue;
        };
        let unit_ref = unit.unit_ref(&dwarf);
        if let Ok(mut r) = unit_ref.unit_ranges() {
            drain(o, "unit_ranges", cap(total), false, || r.next(), |_, _| {});
        }
        if let Some(lp) = unit.line_program.clone() {
            let mut rows = lp.rows();
            let mut n = 0u64;
            loop {
                n += 1;
                if n > cap(total) {
                    o.flag("steps LineRows(unit)".into());
                    break;
                }
                match rows.next_row() {
                    Ok(Some(_)) => {}
                    Ok(None) => break,
                    Err(_) => {
                        o.errs += 1;
                        break;
                    }
                }
            }
        }
        let mut c = unit.entries();
        let mut n = 0u64;
        loop {
            n += 1;
            o.calls += 1;
            if n > cap(total) {
                o.flag("steps Unit::entries".into());
                break;
            }
            let entry = match c.next_dfs() {
                Ok(Some(e)) => e.clone(),
                Ok(None) => break,
                Err(_) => {
                    o.errs += 1;
                    break;
                }
            };
            if n > 200 {
                continue;
            }
            if let Ok(mut r) = unit_ref.die_ranges(&entry) {
                drain(o, "die_ranges", cap(total), false, || r.next(), |_, _| {});
            }
            for a in entry.attrs().iter().take(32) {
                let v = a.value();
                let _ = unit_ref.attr_string(v.clone()).map(|s| s.len());
                let _ = unit_ref.attr_address(v.clone());
                let _ = dwarf.attr_line_string(v.clone()).map(|s| s.len());
                if let Ok(Some(mut r)) = unit_ref.attr_ranges(v.clone()) {
                    drain(o, "attr_ranges", cap(total), false, || r.next(), |_, _| {});
                }
                if let Ok(Some(mut l)) = unit_ref.attr_locations(v.clone()) {
                    drain(o, "attr_locations", cap(total), false, || l.next(), |_, _| {});
                }
                let _ = unit_ref.attr_ranges_offset(v.clone());
                let _ = unit_ref.attr_locations_offset(v.clone());
                match v {
                    AttributeValue::DebugMacinfoRef(off) => {
                        if let Ok(mut m) = unit_ref.macinfo(off) {
                            drain(o, "MacroIter(unit macinfo)", cap(total), false, || m.next(), |_, _| {});
                        }
                    }
                    AttributeValue::DebugMacroRef(off) => {
                        if let Ok(mut m) = unit_ref.macros(off) {
                            drain(o, "MacroIter(unit macro)", cap(total), false, || m.next(), |_, _| {});
                        }
                    }
                    _ => {}
                }
            }
        }
    }
}

fn drive_convert<'a>(o: &mut Obs, secs: &'a [(String, Vec<u8>)], e: RunTimeEndian) {
    use gimli::write::Writer;
    let dwarf = load_dwarf(secs, e);
    match gimli::write::Dwarf::from(&dwarf, &|a| Some(gimli::write::Address::Constant(a))) {
        Ok(mut w) => {
            o.items += 1;
            let mut sections = gimli::write::Sections::new(gimli::write::EndianVec::new(e));
            match w.write(&mut sections) {
                Ok(()) => {
                    let _ = sections.debug_info.len();
                }
                Err(_) => o.errs += 1,
            }
        }
        Err(_) => o.errs += 1,
    }
}

fn drive_convert_frame<'a>(o: &mut Obs, e: RunTimeEndian, address_size: u8, bytes: &'a [u8], eh: bool) {
    let b = bases();
    let conv = &|a| Some(gimli::write::Address::Constant(a));
    let res = if eh {
        let mut s = EhFrame::from(R::new(bytes, e));
        s.set_address_size(address_size);
        gimli::write::FrameTable::from(&s, conv)
    } else {
        let mut s = DebugFrame::from(R::new(bytes, e));
        s.set_address_size(address_size);
        gimli::write::FrameTable::from(&s, conv)
    };
    match res {
        Ok(t) => {
            o.items += 1;
            let mut w = gimli::write::DebugFrame::from(gimli::write::EndianVec::new(e));
            if t.write_debug_frame(&mut w).is_err() {
                o.errs += 1;
            }
            let mut w = gimli::write::EhFrame::from(gimli::write::EndianVec::new(e));
            if t.write_eh_frame(&mut w).is_err() {
                o.errs += 1;
            }
        }
        Err(_) => o.errs += 1,
    }
}

// ---------------------------------------------------------------------------------------------

fn probes(bytes: &[u8], rng: &mut Rng) -> Vec<u64> {
    let mut v = vec![0u64, 1, 0x1000, 0x4000, u64::MAX, u64::MAX - 1, 1 << 63];
    for _ in 0..4 {
        v.push(rng.boundary_u64());
    }
    // values that occur in the section
    for k in (0..bytes.len().saturating_sub(8)).step_by(bytes.len() / 8 + 1) {
        let mut b = [0u8; 8];
        b.copy_from_slice(&bytes[k..k + 8]);
        v.push(u64::from_le_bytes(b));
        v.push(u32::from_le_bytes([b[0], b[1], b[2], b[3]]) as u64);
        v.push((u32::from_le_bytes([b[0], b[1], b[2], b[3]]) as u64).wrapping_add(0x1000 + k as u64));
    }
    v
}

/// `macro-iter <le|be> <macinfo|macro32|macro64> <hex body>`: what an error-ignoring caller of
/// `MacroIter::next` sees, in the Model's text (`Gimli.Drv.C01.macroTrace`)
fn macro_iter(a: &[&str]) -> Option<String> {
    use gimli::read::{MacroEntry, MacroString};
    let [e, kind, h] = a else { return None };
    let e = endian(e)?;
    let body = unhex(h)?;
    let mut sec = Vec::new();
    let is_macro = match *kind {
        "macinfo" => false,
        "macro32" => {
            sec.extend_from_slice(if e == RunTimeEndian::Little { &[5, 0, 0] } else { &[0, 5, 0] });
            true
        }
        "macro64" => {
            sec.extend_from_slice(if e == RunTimeEndian::Little { &[5, 0, 1] } else { &[0, 5, 1] });
            true
        }
        _ => return None,
    };
    sec.extend_from_slice(&body);
    let it = if is_macro {
        DebugMacro::from(R::new(&sec, e)).get_macros(gimli::DebugMacroOffset(0))
    } else {
        DebugMacinfo::from(R::new(&sec, e)).get_macinfo(gimli::DebugMacinfoOffset(0))
    };
    let mut it = match it {
        Ok(it) => it,
        Err(err) => return Some(format!("err {}", crate::util::rerr(&err))),
    };
    fn ms<'a>(tag: &str, line: u64, s: &MacroString<R<'a>>) -> String {
        match s {
            MacroString::Direct(r) => format!("{tag}:{line}:{}", hex(r.0.slice())),
            MacroString::StringPointer(o) => format!("{tag}p:{line}:{}", o.0),
            MacroString::IndirectStringPointer(i) => format!("{tag}x:{line}:{}", i.0),
            MacroString::Supplementary(o) => format!("{tag}s:{line}:{}", o.0),
        }
    }
    let mut out: Vec<String> = Vec::new();
    let mut done = false;
    for _ in 0..body.len() + 2 {
        match it.next() {
            Ok(None) => {
                out.push("none".into());
                done = true;
                break;
            }
            Ok(Some(x)) => out.push(match x {
                MacroEntry::Define { line, text } => ms("def", line, &text),
                MacroEntry::Undef { line, name } => ms("und", line, &name),
                MacroEntry::StartFile { line, file } => format!("start:{line}:{file}"),
                MacroEntry::EndFile => "end".into(),
                MacroEntry::Import { offset } => format!("imp:{}", offset.0),
                MacroEntry::ImportSup { offset } => format!("imps:{}", offset.0),
                MacroEntry::VendorExt { numeric, string } => format!("vend:{numeric}:{}", hex(string.0.slice())),
            }),
            Err(err) => out.push(format!("E{}", crate::util::rerr(&err))),
        }
    }
    if !done {
        out.push("cap".into());
    }
    // direct oracle (C01): an error-ignoring caller is done within len+1 calls
    let o = if !done { " #oracle:steps MacroIter not finished after len+2 calls" } else { "" };
    Some(format!("ok {}{o}", out.join(";")))
}

pub fn handle(op: &str, a: &[&str]) -> Option<String> {
    if op == "macro-iter" {
        return macro_iter(a);
    }
    if op != "c01" || a.len() < 2 {
        return None;
    }
    let entry = a[0];
    let fail_at: Option<u64> = if a[1] == "-" { None } else { Some(a[1].parse().ok()?) };
    let a = &a[2..];
    let mut o = Obs::new();
    // the per-case PRNG (resume answers, probes) derives from the request text only
    let mut rng = Rng::new(crate::util::str_hash(&a.join(" ")));
    set_fail_at(fail_at);
    let r = (|| -> Option<()> {
        match (entry, a) {
            ("abbrev", [e, h]) => {
                let bs = unhex(h)?;
                let s = DebugAbbrev::from(R::new(&bs, endian(e)?));
                for off in [0usize, 1, bs.len() / 2, bs.len(), usize::MAX] {
                    if let Ok(ab) = s.abbreviations(gimli::DebugAbbrevOffset(off)) {
                        for c in [0u64, 1, 2, 3, 127, 128, u64::MAX] {
                            let _ = ab.get(c);
                        }
                    } else {
                        o.errs += 1;
                    }
                }
            }
            ("info", [e, ab, info]) | ("types", [e, ab, info]) => {
                let (ab, info) = (unhex(ab)?, unhex(info)?);
                drive_units(&mut o, endian(e)?, &ab, &info, entry == "types", &mut rng);
            }
            ("line", [e, asz, off, h]) => {
                let bs = unhex(h)?;
                drive_line(&mut o, endian(e)?, asz.parse().ok()?, &bs, off.parse().ok()?);
            }
            ("ehframe", [e, asz, h]) => {
                let bs = unhex(h)?;
                let mut s = EhFrame::from(R::new(&bs, endian(e)?));
                s.set_address_size(asz.parse().ok()?);
                let p = probes(&bs, &mut rng);
                drive_frame_section(&mut o, &s, bs.len(), &p);
            }
            ("debugframe", [e, asz, h]) => {
                let bs = unhex(h)?;
                let mut s = DebugFrame::from(R::new(&bs, endian(e)?));
                s.set_address_size(asz.parse().ok()?);
                let p = probes(&bs, &mut rng);
                drive_frame_section(&mut o, &s, bs.len(), &p);
            }
            ("ehhdr", [e, asz, hdr, frame]) => {
                let (hdr, frame) = (unhex(hdr)?, unhex(frame)?);
                let mut p = probes(&hdr, &mut rng);
                p.extend(probes(&frame, &mut rng));
                drive_ehhdr(&mut o, endian(e)?, asz.parse().ok()?, &hdr, &frame, &p);
            }
            ("expr", [c, h]) => {
                let (e, enc) = cfg(c)?;
                let bs = unhex(h)?;
                drive_expr(&mut o, R::new(&bs, e), enc, &mut rng);
            }
            ("rnglists", [c, off, lists, addr]) => {
                let (e, enc) = cfg(c)?;
                let (lists, addr) = (unhex(lists)?, unhex(addr)?);
                drive_rnglists(&mut o, e, enc, &lists, &addr, off.parse().ok()?, &mut rng);
            }
            ("loclists", [c, off, lists, addr]) => {
                let (e, enc) = cfg(c)?;
                let (lists, addr) = (unhex(lists)?, unhex(addr)?);
                drive_loclists(&mut o, e, enc, &lists, &addr, off.parse().ok()?, &mut rng);
            }
            ("aranges", [e, h]) => {
                let bs = unhex(h)?;
                drive_aranges(&mut o, endian(e)?, &bs);
            }
            ("addr", [e, asz, base, index, h]) => {
                let bs = unhex(h)?;
                drive_addr(&mut o, endian(e)?, asz.parse().ok()?, &bs, base.parse().ok()?, index.parse().ok()?);
            }
            ("stroffsets", [e, f, base, index, h]) => {
                let bs = unhex(h)?;
                let s = DebugStrOffsets::from(R::new(&bs, endian(e)?));
                let format = if *f == "64" { Format::Dwarf64 } else { Format::Dwarf32 };
                let _ = s.get_str_offset(format, gimli::DebugStrOffsetsBase(base.parse().ok()?), gimli::DebugStrOffsetsIndex(index.parse().ok()?));
            }
            ("str", [e, off, h]) => {
                let bs = unhex(h)?;
                let s = DebugStr::from(R::new(&bs, endian(e)?));
                let _ = s.get_str(gimli::DebugStrOffset(off.parse().ok()?));
                let s = gimli::read::DebugLineStr::from(R::new(&bs, endian(e)?));
                let _ = s.get_str(gimli::DebugLineStrOffset(off.parse().ok()?));
            }
            ("index", [e, h]) => {
                let bs = unhex(h)?;
                drive_index(&mut o, endian(e)?, &bs, &mut rng);
            }
            ("names", [e, h, strs]) => {
                let (bs, strs) = (unhex(h)?, unhex(strs)?);
                drive_names(&mut o, endian(e)?, &bs, &strs, &mut rng);
            }
            ("pubnames", [e, h]) => {
                let bs = unhex(h)?;
                let s = DebugPubNames::from(R::new(&bs, endian(e)?));
                let mut it = s.items();
                drain(&mut o, "PubNamesEntryIter", cap(bs.len()), true, || it.next(), |_, x| {
                    let _ = (x.name().len(), x.unit_header_offset(), x.die_offset());
                });
                let s = DebugPubTypes::from(R::new(&bs, endian(e)?));
                let mut it = s.items();
                drain(&mut o, "PubTypesEntryIter", cap(bs.len()), true, || it.next(), |_, _| {});
            }
            ("macinfo", [e, off, h]) | ("macro", [e, off, h]) => {
                let bs = unhex(h)?;
                drive_macros(&mut o, endian(e)?, &bs, off.parse().ok()?, entry == "macinfo");
            }
            ("dwarf", [e, secs]) => {
                let secs = parse_sections(secs)?;
                drive_dwarf(&mut o, &secs, endian(e)?, &mut rng);
            }
            ("convert", [e, secs]) => {
                let secs = parse_sections(secs)?;
                drive_convert(&mut o, &secs, endian(e)?);
            }
            ("convframe", [e, asz, kind, h]) => {
                let bs = unhex(h)?;
                drive_convert_frame(&mut o, endian(e)?, asz.parse().ok()?, &bs, *kind == "eh");
            }
            _ => return None,
        }
        Some(())
    })();
    set_fail_at(None);
    r?;
    Some(match o.bad {
        Some(b) => b,
        None => format!("normal i{} e{} c{}", o.items, o.errs, o.calls),
    })
}

// ---------------------------------------------------------------------------------------------
// generation

fn fixture(name: &str) -> Vec<u8> {
    let repo = std::env::var("VERIF_REPO").unwrap_or_else(|_| "/repo".into());
    std::fs::read(format!("{repo}/fixtures/self/{name}")).unwrap_or_default()
}

fn uleb(v: u64) -> Vec<u8> {
    gimli::leb128::write::Leb128::unsigned(v).bytes().to_vec()
}
fn sleb(v: i64) -> Vec<u8> {
    gimli::leb128::write::Leb128::signed(v).bytes().to_vec()
}

/// structure-aware mutation of a valid section
pub fn mutate(rng: &mut Rng, seed: &[u8], other: &[u8]) -> Vec<u8> {
    let mut b = seed.to_vec();
    if b.is_empty() {
        return rng.bytes_below(16);
    }
    let n = 1 + rng.below(4);
    for _ in 0..n {
        let k = rng.below(b.len() as u64) as usize;
        match rng.below(12) {
            0 => b.truncate(k),
            1 => b[k] = *rng.pick(&[0u8, 1, 0x7f, 0x80, 0xff, 0xfe, 0x40, 0x3f]),
            2 => b[k] = b[k].wrapping_add(1),
            3 => b[k] ^= 1 << rng.below(8),
            4 => {
                // overwrite with an extreme LEB128
                let v = if rng.chance(1, 2) { uleb(rng.boundary_u64()) } else { sleb(rng.boundary_i64()) };
                let end = (k + v.len()).min(b.len());
                b.splice(k..end, v);
            }
            5 => {
                // overwrite a 4/8-byte field with a boundary value
                let w = if rng.chance(1, 2) { 4 } else { 8 };
                let v = rng.boundary_u64().to_le_bytes();
                for i in 0..w {
                    if k + i < b.len() {
                        b[k + i] = v[i];
                    }
                }
            }
            6 => {
                // splice with another valid section
                if !other.is_empty() {
                    let j = rng.below(other.len() as u64) as usize;
                    let l = rng.below(64) as usize;
                    let end = (j + l).min(other.len());
                    let ke = (k + l).min(b.len());
                    b.splice(k..ke, other[j..end].iter().cloned());
                }
            }
            7 => {
                b.insert(k, rng.next() as u8);
            }
            8 => {
                b.remove(k);
            }
            9 => {
                // duplicate a chunk
                let l = rng.below(32) as usize;
                let end = (k + l).min(b.len());
                let chunk = b[k..end].to_vec();
                b.splice(k..k, chunk);
            }
            10 => {
                for i in 0..(rng.below(8) as usize) {
                    if k + i < b.len() {
                        b[k + i] = 0xff;
                    }
                }
            }
            _ => {
                for i in 0..(rng.below(8) as usize) {
                    if k + i < b.len() {
                        b[k + i] = 0;
                    }
                }
            }
        }
        if b.is_empty() {
            break;
        }
    }
    b
}

fn window(rng: &mut Rng, b: &[u8], max: usize) -> Vec<u8> {
    if b.len() <= max {
        return b.to_vec();
    }
    let k = rng.below((b.len() - max) as u64) as usize;
    b[k..k + max].to_vec()
}

/// small valid sections produced by gimli's own writer (seeds for mutation)
pub struct Seeds {
    pub abbrev: Vec<u8>,
    pub info: Vec<u8>,
    pub line: Vec<u8>,
    pub str_: Vec<u8>,
    pub line_str: Vec<u8>,
    pub ranges: Vec<u8>,
    pub rnglists: Vec<u8>,
    pub loc: Vec<u8>,
    pub loclists: Vec<u8>,
    pub debug_frame: Vec<u8>,
    pub eh_frame: Vec<u8>,
}

pub fn write_seeds(version: u16, format: Format, address_size: u8, e: RunTimeEndian, rng: &mut Rng) -> Option<Seeds> {
    use gimli::write::*;
    let encoding = Encoding { version, format, address_size };
    let mut dwarf = Dwarf::new();
    let line_strings_ok = version >= 5;
    let dir = if line_strings_ok { LineString::new(&b"/dir"[..], encoding, &mut dwarf.line_strings) } else { LineString::String(b"/dir".to_vec()) };
    let file = if line_strings_ok { LineString::new(&b"f.c"[..], encoding, &mut dwarf.line_strings) } else { LineString::String(b"f.c".to_vec()) };
    let mut lp = LineProgram::new(encoding, gimli::LineEncoding::default(), dir, None, file, None);
    let d = lp.default_directory();
    let f = lp.add_file(LineString::String(b"g.c".to_vec()), d, None);
    lp.begin_sequence(Some(Address::Constant(0x1000)));
    for i in 0..(3 + rng.below(6)) {
        lp.row().file = f;
        lp.row().line = 1 + (i * 3) % 7;
        lp.row().address_offset = i * 4;
        lp.row().column = i;
        lp.generate_row();
    }
    lp.end_sequence(0x40);
    let uid = dwarf.units.add(Unit::new(encoding, lp));
    let unit = dwarf.units.get_mut(uid);
    let root = unit.root();
    unit.get_mut(root).set(gimli::DW_AT_name, AttributeValue::StringRef(dwarf.strings.add(&b"unit"[..])));
    unit.get_mut(root).set(gimli::DW_AT_low_pc, AttributeValue::Address(Address::Constant(0x1000)));
    unit.get_mut(root).set(gimli::DW_AT_high_pc, AttributeValue::Udata(0x100));
    let ranges = unit.ranges.add(RangeList(vec![
        Range::StartEnd { begin: Address::Constant(0x1000), end: Address::Constant(0x1010) },
        Range::StartLength { begin: Address::Constant(0x2000), length: 0x20 },
    ]));
    unit.get_mut(root).set(gimli::DW_AT_ranges, AttributeValue::RangeListRef(ranges));
    let mut prev = root;
    for i in 0..(2 + rng.below(4)) {
        let parent = if rng.chance(1, 2) { prev } else { root };
        let c = unit.add(parent, *rng.pick(&[gimli::DW_TAG_subprogram, gimli::DW_TAG_variable, gimli::DW_TAG_base_type, gimli::DW_TAG_lexical_block]));
        unit.get_mut(c).set(gimli::DW_AT_name, AttributeValue::String(format!("n{i}").into_bytes()));
        unit.get_mut(c).set(gimli::DW_AT_decl_line, AttributeValue::Udata(rng.boundary_u64()));
        unit.get_mut(c).set(gimli::DW_AT_const_value, AttributeValue::Sdata(rng.boundary_i64()));
        let mut ex = Expression::new();
        ex.op_breg(gimli::Register(7), 8);
        ex.op_deref();
        ex.op_plus_uconst(rng.below(300));
        if rng.chance(1, 2) {
            ex.op_piece(4);
        }
        unit.get_mut(c).set(gimli::DW_AT_frame_base, AttributeValue::Exprloc(ex.clone()));
        let ll = unit.locations.add(LocationList(vec![Location::StartEnd { begin: Address::Constant(0x1000), end: Address::Constant(0x1004), data: ex }]));
        unit.get_mut(c).set(gimli::DW_AT_location, AttributeValue::LocationListRef(ll));
        if i > 0 {
            unit.get_mut(c).set(gimli::DW_AT_type, AttributeValue::UnitRef(prev));
        }
        prev = c;
    }
    let mut sections = Sections::new(EndianVec::new(e));
    dwarf.write(&mut sections).ok()?;
    // frame table
    let mut frames = FrameTable::default();
    let mut cie = CommonInformationEntry::new(encoding, 1, -8, gimli::Register(16));
    cie.add_instruction(CallFrameInstruction::Cfa(gimli::Register(7), 8));
    cie.add_instruction(CallFrameInstruction::Offset(gimli::Register(16), -8));
    let cid = frames.add_cie(cie);
    for i in 0..(1 + rng.below(3)) {
        let mut fde = FrameDescriptionEntry::new(Address::Constant(0x1000 + 0x100 * i), 0x80);
        fde.add_instruction(1, CallFrameInstruction::CfaOffset(16));
        fde.add_instruction(2, CallFrameInstruction::RememberState);
        fde.add_instruction(0x50, CallFrameInstruction::Offset(gimli::Register(6), -16));
        fde.add_instruction(0x60, CallFrameInstruction::RestoreState);
        frames.add_fde(cid, fde);
    }
    let mut df = gimli::write::DebugFrame::from(EndianVec::new(e));
    frames.write_debug_frame(&mut df).ok()?;
    let mut ef = gimli::write::EhFrame::from(EndianVec::new(e));
    frames.write_eh_frame(&mut ef).ok()?;
    Some(Seeds {
        abbrev: sections.debug_abbrev.slice().to_vec(),
        info: sections.debug_info.slice().to_vec(),
        line: sections.debug_line.slice().to_vec(),
        str_: sections.debug_str.slice().to_vec(),
        line_str: sections.debug_line_str.slice().to_vec(),
        ranges: sections.debug_ranges.slice().to_vec(),
        rnglists: sections.debug_rnglists.slice().to_vec(),
        loc: sections.debug_loc.slice().to_vec(),
        loclists: sections.debug_loclists.slice().to_vec(),
        debug_frame: df.slice().to_vec(),
        eh_frame: ef.slice().to_vec(),
    })
}

fn es(e: RunTimeEndian) -> &'static str {
    if e == RunTimeEndian::Little { "le" } else { "be" }
}

fn secs_line(s: &Seeds) -> String {
    format!(
        "debug_abbrev={};debug_info={};debug_line={};debug_str={};debug_line_str={};debug_ranges={};debug_rnglists={};debug_loc={};debug_loclists={}",
        hex(&s.abbrev), hex(&s.info), hex(&s.line), hex(&s.str_), hex(&s.line_str), hex(&s.ranges), hex(&s.rnglists), hex(&s.loc), hex(&s.loclists)
    )
}

pub fn gen(ctx: &Ctx, emit: &mut dyn FnMut(String)) {
    let mut rng = ctx.rng(1);
    let thorough = ctx.tier == Tier::Thorough;
    // ---- 1. exhaustive short strings into every single-section entry point
    let maxlen = if thorough { 2 } else { 1 };
    let mut shorts: Vec<Vec<u8>> = vec![vec![]];
    for b in 0..=255u8 {
        shorts.push(vec![b]);
    }
    if maxlen >= 2 {
        for a in 0..=255u8 {
            for b in 0..=255u8 {
                shorts.push(vec![a, b]);
            }
        }
    }
    for s in &shorts {
        let h = hex(s);
        emit(format!("c01 expr - le,8,32,5 {h}"));
        emit(format!("c01 expr - be,4,32,2 {h}"));
        if s.len() <= 1 || thorough {
            emit(format!("c01 abbrev - le {h}"));
            emit(format!("c01 line - le 8 0 {h}"));
            emit(format!("c01 ehframe - le 8 {h}"));
            emit(format!("c01 debugframe - le 4 {h}"));
            emit(format!("c01 aranges - le {h}"));
            emit(format!("c01 rnglists - le,8,32,5 0 {h} -"));
            emit(format!("c01 rnglists - le,4,32,4 0 {h} -"));
            emit(format!("c01 loclists - le,8,32,5 0 {h} -"));
            emit(format!("c01 loclists - le,4,32,4 0 {h} -"));
            emit(format!("c01 index - le {h}"));
            emit(format!("c01 names - le {h} -"));
            emit(format!("c01 pubnames - le {h}"));
            emit(format!("c01 macinfo - le 0 {h}"));
            emit(format!("c01 macro - le 0 {h}"));
            emit(format!("c01 info - le {h} {h}"));
            emit(format!("c01 ehhdr - le 8 {h} -"));
        }
    }
    // ---- 2. extreme indices / bases
    for &(b, i) in &[(0u64, 0u64), (0, u64::MAX), (0, u64::MAX / 2), (u64::MAX, 0), (8, (1 << 61) + 1), (u64::MAX / 2, u64::MAX / 2), (1, 1 << 62), (1 << 32, 1 << 32)] {
        for asz in [1, 2, 4, 8] {
            emit(format!("c01 addr - le {asz} {b} {i} 000000000000000000000000"));
        }
        emit(format!("c01 stroffsets - le 32 {b} {i} 0000000000000000"));
        emit(format!("c01 stroffsets - be 64 {b} {i} 0000000000000000"));
        emit(format!("c01 str - le {b} 6162630064656600"));
    }
    // ---- 3. mutated real sections (repo fixtures) and writer-produced seeds
    let fx_abbrev = fixture("debug_abbrev");
    let fx_info = fixture("debug_info");
    let fx_line = fixture("debug_line");
    let fx_eh = fixture("eh_frame");
    let fx_hdr = fixture("eh_frame_hdr");
    let fx_aranges = fixture("debug_aranges");
    let fx_loc = fixture("debug_loc");
    let fx_ranges = fixture("debug_ranges");
    let fx_pub = fixture("debug_pubnames");
    let fx_pubt = fixture("debug_pubtypes");
    let n = ctx.n(300, 20_000);
    for i in 0..n {
        let w = 600;
        // fixtures are big; use windows aligned to structure starts where cheap (offset 0) or random windows
        let line = if i % 3 == 0 { fx_line[..fx_line.len().min(w * 4)].to_vec() } else { window(&mut rng, &fx_line, w) };
        emit(format!("c01 line - le 8 0 {}", hex(&mutate(&mut rng, &line, &fx_info))));
        let eh = fx_eh[..fx_eh.len().min(w * 2)].to_vec();
        emit(format!("c01 ehframe - le 8 {}", hex(&mutate(&mut rng, &eh, &fx_line))));
        emit(format!("c01 convframe - le 8 eh {}", hex(&mutate(&mut rng, &eh, &fx_line))));
        let hdr = fx_hdr[..fx_hdr.len().min(w)].to_vec();
        emit(format!("c01 ehhdr - le 8 {} {}", hex(&mutate(&mut rng, &hdr, &eh)), hex(&eh)));
        emit(format!("c01 aranges - le {}", hex(&mutate(&mut rng, &fx_aranges[..fx_aranges.len().min(w)], &fx_eh))));
        emit(format!("c01 loclists - le,8,32,4 0 {} -", hex(&mutate(&mut rng, &fx_loc[..fx_loc.len().min(w)], &fx_eh))));
        emit(format!("c01 rnglists - le,8,32,4 0 {} -", hex(&mutate(&mut rng, &fx_ranges[..fx_ranges.len().min(w)], &fx_eh))));
        emit(format!("c01 pubnames - le {}", hex(&mutate(&mut rng, &fx_pub[..fx_pub.len().min(w)], &fx_pubt))));
        if i % 4 == 0 {
            let info = fx_info[..fx_info.len().min(2000)].to_vec();
            let ab = fx_abbrev[..fx_abbrev.len().min(2000)].to_vec();
            let (mi, ma) = if rng.chance(1, 2) { (mutate(&mut rng, &info, &ab), ab.clone()) } else { (info.clone(), mutate(&mut rng, &ab, &info)) };
            emit(format!("c01 info - le {} {}", hex(&ma), hex(&mi)));
        }
    }
    // writer-produced seeds over the configuration grid
    // conversion of line programs under every shape of (line_base, line_range), including the
    // ones the writer cannot represent (it must answer with an error, not an assertion failure)
    for lb in [-128i8, -100, -10, -5, -1, 0, 1, 127] {
        for lr in [1u8, 3, 4, 5, 14, 100, 127, 128, 129, 242, 243, 244, 255] {
            // set_address, a few special opcodes across the range, advance_line, end_sequence
            let mut prog = vec![0u8, 9, 2, 0, 0x10, 0, 0, 0, 0, 0, 0];
            prog.extend_from_slice(&[13, 14, 100, 200, 243, 244, 255, 3, 0x7f, 1, 3, 0x85, 0x7f, 1, 2, 4, 0, 1, 1]);
            let s = crate::prop::c12::assembled_line_unit_with(lb, lr, &prog);
            let line = s.iter().filter(|(_, d)| !d.is_empty()).map(|(n, d)| format!("{n}={}", hex(d))).collect::<Vec<_>>().join(";");
            emit(format!("c01 convert - le {line}"));
        }
    }
    // .debug_pubnames / .debug_pubtypes: a set with a valid header whose entry list ends in a partial
    // entry (stray bytes where the next offset should be, or a name without its NUL), followed or not
    // by another set — the iterator must stop after the error
    for dwarf64 in [false, true] {
        for stray in 0..9usize {
            for tail in 0..3u8 {
                for second_set in [false, true] {
                    let word = |v: u64| -> Vec<u8> { if dwarf64 { v.to_le_bytes().to_vec() } else { (v as u32).to_le_bytes().to_vec() } };
                    let mut body = vec![2u8, 0];
                    body.extend(word(0));
                    body.extend(word(0x40));
                    body.extend(word(0x1b));
                    body.extend_from_slice(b"main\0");
                    match tail {
                        0 => body.extend(std::iter::repeat(0x41u8).take(stray)),
                        1 => {
                            body.extend(word(0x2c));
                            body.extend(std::iter::repeat(0x61u8).take(stray));
                        }
                        _ => {
                            body.extend(word(0));
                            body.extend(std::iter::repeat(0u8).take(stray));
                        }
                    }
                    let mut sec = Vec::new();
                    if dwarf64 {
                        sec.extend_from_slice(&0xffff_ffffu32.to_le_bytes());
                    }
                    sec.extend(word(body.len() as u64));
                    sec.extend(body);
                    if second_set {
                        let copy = sec.clone();
                        sec.extend(copy);
                    }
                    emit(format!("c01 pubnames - le {}", hex(&sec)));
                }
            }
        }
    }
    // .debug_names headers with one extreme count / size field at a time (the others zero or small): the
    // unit, bucket, name and abbreviation-table sizes are multiplied and added up, the augmentation
    // string size is rounded up to a multiple of 4
    for dwarf64 in [false, true] {
        for field in 0..7usize {
            for v in [0xffff_ffffu32, 0xffff_fffe, 0xffff_fffd, 0xffff_fffc, 0x8000_0000, 0x7fff_ffff, 0x4000_0000, 0x2000_0001, 0x1000_0000, 0x0fff_ffff, 5, 1] {
                for (others, tail) in [(0u32, 0usize), (1, 0), (0, 8), (3, 40)] {
                    let mut body = vec![5u8, 0, 0, 0];
                    for f in 0..7 {
                        body.extend_from_slice(&(if f == field { v } else { others }).to_le_bytes());
                    }
                    body.extend(std::iter::repeat(0x41u8).take(tail));
                    let mut sec = Vec::new();
                    if dwarf64 {
                        sec.extend_from_slice(&0xffff_ffffu32.to_le_bytes());
                        sec.extend_from_slice(&(body.len() as u64).to_le_bytes());
                    } else {
                        sec.extend_from_slice(&(body.len() as u32).to_le_bytes());
                    }
                    sec.extend(body);
                    emit(format!("c01 names - le {} -", hex(&sec)));
                }
            }
        }
    }
    // DW_AT_sibling pointers of every value around an entry with children: before the entry, inside
    // the entry itself (after its first byte, before its end), at its end, at each later entry, past
    // the unit — in every unit-reference form; the sibling fast path of `next_sibling` and of the tree
    // must treat an unusable pointer as absent
    for (form, width) in [(0x11u8, 1usize), (0x12, 2), (0x13, 4), (0x14, 8), (0x15, 0)] {
        for x in (0u64..48).chain([0x7f, 0x80, 0xff, 0x100, 0xffff, 0xffff_ffff, u64::MAX]) {
            // abbrevs: 1 = CU (children); 2 = subprogram (children): name(string), sibling(form), decl_line(data2);
            // 3 = variable (no children)
            let ab = vec![1u8, 0x11, 1, 0, 0, 2, 0x2e, 1, 0x03, 0x08, 0x01, form, 0x3b, 0x05, 0, 0, 3, 0x34, 0, 0, 0, 0];
            let mut dies = vec![1u8, 2, b'A', 0];
            if width == 0 {
                dies.extend(uleb(x));
            } else {
                dies.extend_from_slice(&x.to_le_bytes()[..width]);
            }
            dies.extend_from_slice(&[7, 0]);
            dies.extend_from_slice(&[3, 0, 3, 2, b'B', 0]);
            if width == 0 {
                dies.extend(uleb(x / 2));
            } else {
                dies.extend_from_slice(&(x / 2).to_le_bytes()[..width]);
            }
            dies.extend_from_slice(&[9, 0, 0, 0]);
            let mut body = vec![4u8, 0, 0, 0, 0, 0, 8];
            body.extend(dies);
            let mut unit = (body.len() as u32).to_le_bytes().to_vec();
            unit.extend(body);
            emit(format!("c01 info - le {} {}", hex(&ab), hex(&unit)));
        }
    }
    // DWARF 5 line headers: every small shape of the two entry-format descriptions and entry counts
    // (no format / no path / one path / two paths / unknown content types) — the parsers of the
    // entries rely on what the format parser has checked
    {
        // (content type, form): path=1 string=0x08, directory_index=2 udata=0x0f, timestamp=3 udata,
        // size=4 udata, MD5=5 data16=0x1e, an unknown vendor type with udata
        let elems: [(u64, u64); 6] = [(1, 0x08), (2, 0x0f), (3, 0x0f), (4, 0x0f), (5, 0x1e), (0x2001, 0x0f)];
        let entry = |fmt: &[(u64, u64)]| -> Vec<u8> {
            let mut v = Vec::new();
            for &(_, form) in fmt {
                match form {
                    0x08 => v.extend_from_slice(b"a\0"),
                    0x1e => v.extend_from_slice(&[7u8; 16]),
                    _ => v.push(0),
                }
            }
            v
        };
        let fmts: Vec<Vec<(u64, u64)>> = vec![
            vec![],
            vec![elems[0]],
            vec![elems[1]],
            vec![elems[0], elems[1]],
            vec![elems[0], elems[0]],
            vec![elems[1], elems[2], elems[3]],
            vec![elems[5]],
            vec![elems[0], elems[4], elems[5]],
        ];
        for dfmt in &fmts {
            for dcount in [0u64, 1, 2, u64::MAX] {
                for ffmt in &fmts {
                    for fcount in [0u64, 1, 3] {
                        if dfmt.len() + ffmt.len() > 4 && dcount > 1 && fcount > 1 {
                            continue;
                        }
                        let mut rest = vec![1u8, 1, 1, 0xfb, 14, 1];
                        rest.push(dfmt.len() as u8);
                        for &(c, f) in dfmt {
                            rest.extend(uleb(c));
                            rest.extend(uleb(f));
                        }
                        rest.extend(uleb(dcount));
                        for _ in 0..dcount.min(2) {
                            rest.extend(entry(dfmt));
                        }
                        rest.push(ffmt.len() as u8);
                        for &(c, f) in ffmt {
                            rest.extend(uleb(c));
                            rest.extend(uleb(f));
                        }
                        rest.extend(uleb(fcount));
                        for _ in 0..fcount {
                            rest.extend(entry(ffmt));
                        }
                        let mut body = vec![5u8, 0, 8, 0];
                        body.extend_from_slice(&(rest.len() as u32).to_le_bytes());
                        body.extend(rest);
                        body.extend_from_slice(&[0, 9, 2, 0, 0x10, 0, 0, 0, 0, 0, 0, 1, 0, 1, 1]);
                        let mut sec = (body.len() as u32).to_le_bytes().to_vec();
                        sec.extend(body);
                        emit(format!("c01 line - le 8 0 {}", hex(&sec)));
                    }
                }
            }
        }
    }
    // line programs the writer cannot express: an address left unaligned by fixed_advance_pc under
    // minimum_instruction_length > 1, DW_LNE_define_file with an empty name (both used to panic)
    for mil in [1u8, 2, 4, 8] {
        for adv in [0u16, 1, 2, 3, 4, 5, 7, 8] {
            let mut prog = vec![0u8, 9, 2, 0, 0x10, 0, 0, 0, 0, 0, 0, 1, 9];
            prog.extend_from_slice(&adv.to_le_bytes());
            prog.extend_from_slice(&[1, 2, 1, 0x21, 9]);
            prog.extend_from_slice(&adv.to_le_bytes());
            prog.extend_from_slice(&[0, 1, 1]);
            let s = crate::prop::c12::assembled_line_unit_mil(mil, -5, 14, &prog);
            let line = s.iter().filter(|(_, d)| !d.is_empty()).map(|(n, d)| format!("{n}={}", hex(d))).collect::<Vec<_>>().join(";");
            emit(format!("c01 convert - le {line}"));
        }
    }
    for name in [&b"\0"[..], &b"x.c\0"[..]] {
        let mut prog = vec![0u8, 9, 2, 0, 0x10, 0, 0, 0, 0, 0, 0];
        prog.push(0);
        prog.push((1 + name.len() + 3) as u8);
        prog.push(3);
        prog.extend_from_slice(name);
        prog.extend_from_slice(&[0, 0, 0]);
        prog.extend_from_slice(&[4, 3, 1, 2, 4, 0, 1, 1]);
        let s = crate::prop::c12::assembled_line_unit_with(-5, 14, &prog);
        let line = s.iter().filter(|(_, d)| !d.is_empty()).map(|(n, d)| format!("{n}={}", hex(d))).collect::<Vec<_>>().join(";");
        emit(format!("c01 convert - le {line}"));
        emit(format!("c01 dwarf - le {line}"));
    }
    // deeply nested DW_OP_entry_value: reading is flat, conversion used to recurse without bound
    for depth in [1usize, 2, 63, 64, 65, 66, 200, 1000, 20000] {
        let s = crate::prop::c12::assembled_expr_unit(&crate::prop::c12::nested_entry_value(depth));
        let line = s.iter().filter(|(_, d)| !d.is_empty()).map(|(n, d)| format!("{n}={}", hex(d))).collect::<Vec<_>>().join(";");
        emit(format!("c01 dwarf - le {line}"));
        emit(format!("c01 convert - le {line}"));
    }
    // conversion of every short line program over set_address (valid, lower, tombstone) /
    // advance / row / end_sequence: partially tombstoned sequences used to trip an assertion
    {
        let alpha = ["r", "e", "a8", "s4096", "s16", "s18446744073709551615"];
        let mut level: Vec<Vec<&str>> = vec![vec![]];
        for _ in 0..4 {
            let mut next = Vec::new();
            for p in &level {
                for a in alpha {
                    let mut q = p.clone();
                    q.push(a);
                    next.push(q);
                }
            }
            for p in &next {
                for tail in ["e", "e,r,e", "e,s256,r,e"] {
                    let ins = format!("{},{tail}", p.join(","));
                    if let Some(prog) = crate::prop::c12::assemble_ins(&ins) {
                        let s = crate::prop::c12::assembled_line_unit_with(-5, 14, &prog);
                        let line = s.iter().filter(|(_, d)| !d.is_empty()).map(|(n, d)| format!("{n}={}", hex(d))).collect::<Vec<_>>().join(";");
                        emit(format!("c01 convert - le {line}"));
                    }
                }
            }
            level = next;
        }
    }
    let rounds = ctx.n(6, 300);
    for _ in 0..rounds {
        for version in [2u16, 3, 4, 5] {
            for format in [Format::Dwarf32, Format::Dwarf64] {
                for asz in [4u8, 8] {
                    let e = if rng.chance(1, 2) { RunTimeEndian::Little } else { RunTimeEndian::Big };
                    let Some(s) = write_seeds(version, format, asz, e, &mut rng) else { continue };
                    let f = if format == Format::Dwarf32 { "32" } else { "64" };
                    let en = es(e);
                    // unmutated
                    emit(format!("c01 dwarf - {en} {}", secs_line(&s)));
                    emit(format!("c01 convert - {en} {}", secs_line(&s)));
                    emit(format!("c01 debugframe - {en} {asz} {}", hex(&s.debug_frame)));
                    emit(format!("c01 ehframe - {en} {asz} {}", hex(&s.eh_frame)));
                    emit(format!("c01 convframe - {en} {asz} debug {}", hex(&s.debug_frame)));
                    emit(format!("c01 convframe - {en} {asz} eh {}", hex(&s.eh_frame)));
                    // every truncation point of the small sections
                    for k in 0..s.line.len() {
                        if k % 3 == 0 || thorough {
                            emit(format!("c01 line - {en} {asz} 0 {}", hex(&s.line[..k])));
                        }
                    }
                    for k in 0..s.debug_frame.len() {
                        if k % 3 == 0 || thorough {
                            emit(format!("c01 debugframe - {en} {asz} {}", hex(&s.debug_frame[..k])));
                        }
                    }
                    for k in 0..s.info.len() {
                        if k % 5 == 0 || thorough {
                            emit(format!("c01 info - {en} {} {}", hex(&s.abbrev), hex(&s.info[..k])));
                        }
                    }
                    // reader failure at operation k
                    for k in (0..200u64).step_by(if thorough { 1 } else { 7 }) {
                        emit(format!("c01 dwarf {k} {en} {}", secs_line(&s)));
                        emit(format!("c01 convert {k} {en} {}", secs_line(&s)));
                        emit(format!("c01 ehframe {k} {en} {asz} {}", hex(&s.eh_frame)));
                        emit(format!("c01 line {k} {en} {asz} 0 {}", hex(&s.line)));
                    }
                    // mutations
                    for _ in 0..ctx.n(12, 60) {
                        let mut m = Seeds { abbrev: s.abbrev.clone(), info: s.info.clone(), line: s.line.clone(), str_: s.str_.clone(), line_str: s.line_str.clone(), ranges: s.ranges.clone(), rnglists: s.rnglists.clone(), loc: s.loc.clone(), loclists: s.loclists.clone(), debug_frame: vec![], eh_frame: vec![] };
                        match rng.below(8) {
                            0 => m.abbrev = mutate(&mut rng, &s.abbrev, &s.info),
                            1 | 2 => m.info = mutate(&mut rng, &s.info, &s.abbrev),
                            3 => m.line = mutate(&mut rng, &s.line, &s.info),
                            4 => m.ranges = mutate(&mut rng, &s.ranges, &s.info),
                            5 => m.rnglists = mutate(&mut rng, &s.rnglists, &s.info),
                            6 => m.loc = mutate(&mut rng, &s.loc, &s.info),
                            _ => m.loclists = mutate(&mut rng, &s.loclists, &s.info),
                        }
                        emit(format!("c01 dwarf - {en} {}", secs_line(&m)));
                        emit(format!("c01 convert - {en} {}", secs_line(&m)));
                        emit(format!("c01 line - {en} {asz} 0 {}", hex(&mutate(&mut rng, &s.line, &s.info))));
                        emit(format!("c01 debugframe - {en} {asz} {}", hex(&mutate(&mut rng, &s.debug_frame, &s.info))));
                        emit(format!("c01 ehframe - {en} {asz} {}", hex(&mutate(&mut rng, &s.eh_frame, &s.info))));
                        emit(format!("c01 convframe - {en} {asz} debug {}", hex(&mutate(&mut rng, &s.debug_frame, &s.info))));
                        let lists = if version >= 5 { &s.rnglists } else { &s.ranges };
                        emit(format!("c01 rnglists - {en},{asz},{f},{version} {} {} -", if version >= 5 { 12 + if format == Format::Dwarf64 { 8 } else { 0 } } else { 0 }, hex(&mutate(&mut rng, lists, &s.info))));
                        let lists = if version >= 5 { &s.loclists } else { &s.loc };
                        emit(format!("c01 loclists - {en},{asz},{f},{version} {} {} -", if version >= 5 { 12 + if format == Format::Dwarf64 { 8 } else { 0 } } else { 0 }, hex(&mutate(&mut rng, lists, &s.info))));
                    }
                }
            }
        }
    }
    // ---- 4. random expressions biased to valid opcodes with extreme operands
    let nexpr = ctx.n(3000, 200_000);
    for _ in 0..nexpr {
        let mut b = Vec::new();
        for _ in 0..(1 + rng.below(8)) {
            let opc = match rng.below(5) {
                0 => rng.next() as u8,
                1 => *rng.pick(&[0x93u8, 0x9d, 0x9e, 0x10, 0x11, 0x23, 0x92, 0x90, 0xa3, 0xa4, 0xa5, 0xa6, 0xa8, 0xa9, 0xf3, 0x94, 0x28, 0x2f, 0x12, 0x15, 0x9f, 0x96]),
                2 => 0x30 + rng.below(0x40) as u8,
                _ => 0x03 + rng.below(0x2c) as u8,
            };
            b.push(opc);
            match rng.below(4) {
                0 => b.extend(uleb(rng.boundary_u64())),
                1 => b.extend(sleb(rng.boundary_i64())),
                2 => b.extend(rng.bytes_below(9)),
                _ => {}
            }
        }
        let c = *rng.pick(&["le,8,32,5", "le,4,32,4", "be,2,32,3", "le,1,64,2", "be,8,64,5"]);
        emit(format!("c01 expr - {c} {}", hex(&b)));
    }
    // ---- 4a. stack-shaped programs: k boundary constants (incl. multiples of 2^(8*addr_size), which
    // truncate to 0 / -1 / sign boundaries at smaller address sizes) then unary/binary operators
    let binops: &[u8] = &[0x1a, 0x1b, 0x1c, 0x1d, 0x1e, 0x21, 0x22, 0x24, 0x25, 0x26, 0x27, 0x29, 0x2a, 0x2b, 0x2c, 0x2d, 0x2e];
    let unops: &[u8] = &[0x19, 0x1f, 0x20, 0x06, 0x12, 0x13, 0x14, 0x16, 0x17];
    for _ in 0..ctx.n(3000, 200_000) {
        let asz = *rng.pick(&[1u64, 2, 4, 8]);
        let mut b = Vec::new();
        for _ in 0..(1 + rng.below(3)) {
            let v = match rng.below(6) {
                0 => (1u64 << (8 * asz).min(63)).wrapping_mul(1 + rng.below(3)),
                1 => ((1u64 << (8 * asz - 1)) as u64).wrapping_sub(rng.below(2)),
                2 => rng.below(3),
                3 => if asz == 8 { u64::MAX } else { (1u64 << (8 * asz)) - 1 + (rng.below(2) << (8 * asz)) },
                _ => rng.boundary_u64(),
            };
            match rng.below(3) {
                0 => {
                    b.push(0x0e);
                    b.extend_from_slice(&v.to_le_bytes());
                }
                1 => {
                    b.push(0x10);
                    b.extend(uleb(v));
                }
                _ => {
                    b.push(0x11);
                    b.extend(sleb(v as i64));
                }
            }
        }
        for _ in 0..(1 + rng.below(3)) {
            b.push(if rng.chance(3, 4) { *rng.pick(binops) } else { *rng.pick(unops) });
        }
        if rng.chance(1, 2) {
            b.push(0x9f);
        }
        let c = match asz {
            1 => "le,1,32,4",
            2 => "be,2,32,3",
            4 => "le,4,32,4",
            _ => "le,8,64,5",
        };
        emit(format!("c01 expr - {c} {}", hex(&b)));
    }
    // ---- 4b. MacroIter, exact trace vs the Model: all strings of length <= 2 (3 thorough) over an
    // alphabet of the interesting bytes, and random entry sequences with boundary operands
    let alpha: &[u8] = &[0, 1, 2, 3, 4, 5, 7, 0x0b, 0x0c, 0x0d, 0x61, 0x7f, 0x80, 0xff];
    let mlen = if thorough { 3 } else { 2 };
    let mut strs: Vec<Vec<u8>> = vec![vec![]];
    let mut frontier: Vec<Vec<u8>> = vec![vec![]];
    for _ in 0..mlen {
        let mut nf = Vec::new();
        for s in &frontier {
            for &b in alpha {
                let mut t = s.clone();
                t.push(b);
                nf.push(t);
            }
        }
        strs.extend(nf.iter().cloned());
        frontier = nf;
    }
    for s in &strs {
        for kind in ["macinfo", "macro32", "macro64"] {
            emit(format!("macro-iter le {kind} {}", hex(s)));
        }
    }
    for _ in 0..ctx.n(1500, 60_000) {
        let mut b = Vec::new();
        for _ in 0..rng.below(6) {
            let t = *rng.pick(&[1u8, 2, 3, 4, 5, 6, 7, 8, 9, 10, 11, 12, 0xff, 0x0d, 0xe0]);
            b.push(t);
            match rng.below(5) {
                0 => b.extend(uleb(rng.boundary_u64())),
                1 => b.extend(rng.bytes_below(12)),
                2 => {
                    b.extend(uleb(rng.below(300)));
                    b.extend_from_slice(b"ab\0");
                }
                3 => {
                    b.extend(uleb(rng.below(300)));
                    let w = if rng.chance(1, 2) { 4 } else { 8 };
                    b.extend(rng.bytes(w));
                }
                _ => {}
            }
        }
        if rng.chance(1, 2) {
            b.push(0);
        }
        if rng.chance(1, 4) {
            let k = rng.below(b.len() as u64 + 1) as usize;
            b.truncate(k);
        }
        let kind = *rng.pick(&["macinfo", "macro32", "macro64"]);
        let e = if rng.chance(1, 2) { "le" } else { "be" };
        emit(format!("macro-iter {e} {kind} {}", hex(&b)));
    }
    // ---- 5. arbitrary bytes into the table-like sections
    let nrand = ctx.n(400, 30_000);
    for _ in 0..nrand {
        let b = rng.bytes_below(96);
        let h = hex(&b);
        emit(format!("c01 index - le {h}"));
        emit(format!("c01 names - le {h} 00"));
        emit(format!("c01 macinfo - le 0 {h}"));
        emit(format!("c01 macro - le 0 {h}"));
        emit(format!("c01 abbrev - le {h}"));
        // plausible headers
        let mut idx = Vec::new();
        idx.extend((if rng.chance(1, 2) { 2u32 } else { 5 }).to_le_bytes());
        idx.extend((rng.below(9) as u32).to_le_bytes());
        idx.extend((rng.below(5) as u32).to_le_bytes());
        idx.extend((*rng.pick(&[0u32, 1, 2, 4, 8, 16, 3, 0x8000_0000, u32::MAX])).to_le_bytes());
        idx.extend(rng.bytes_below(200));
        emit(format!("c01 index - le {}", hex(&idx)));
        let mut names = Vec::new();
        let body = rng.bytes_below(120);
        names.extend(((body.len() + 32) as u32).to_le_bytes());
        names.extend(5u16.to_le_bytes());
        names.extend(0u16.to_le_bytes());
        for _ in 0..6 {
            names.extend((*rng.pick(&[0u32, 1, 2, 3, 8, 0x1000_0000, u32::MAX]) as u32).to_le_bytes());
        }
        names.extend(0u32.to_le_bytes());
        names.extend(body);
        emit(format!("c01 names - le {} 61006200", hex(&names)));
    }
}
