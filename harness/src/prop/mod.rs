//! One module per property. Each provides
//!   * `handle(op, args)`  — the *implementation* side of the line protocol: answer the request from
//!     the real gimli crate, in the Model's canonical text, optionally followed by
//!     ` #oracle:<why>` when the direct property oracle fails on the implementation's own output;
//!   * `gen(ctx, emit)`    — the case stream (request lines) for a tier and seed.
use crate::util::Rng;

mod registry;
pub use registry::*;

#[derive(Clone, Copy, PartialEq, Eq, Debug)]
pub enum Tier {
    Quick,
    Thorough,
}

pub struct Ctx {
    pub tier: Tier,
    pub seed: u64,
}
impl Ctx {
    pub fn rng(&self, stream: u64) -> Rng {
        Rng::new(self.seed.wrapping_mul(0x1000_0000_01b3).wrapping_add(stream))
    }
    pub fn n(&self, quick: usize, thorough: usize) -> usize {
        if self.tier == Tier::Quick { quick } else { thorough }
    }
}

pub type Handler = fn(&str, &[&str]) -> Option<String>;
pub type Generator = fn(&Ctx, &mut dyn FnMut(String));

pub struct PropDef {
    pub id: &'static str,
    pub handle: Handler,
    pub gen: Generator,
    /// which worker builds the property is run against
    pub modes: &'static [&'static str],
}

pub fn dispatch(line: &str) -> String {
    let toks: Vec<&str> = line.split_ascii_whitespace().collect();
    if toks.is_empty() {
        return "bad-op".into();
    }
    for p in all() {
        if let Some(r) = (p.handle)(toks[0], &toks[1..]) {
            return r;
        }
    }
    "bad-op".into()
}
