// C12, expression component (included into c12.rs): `write::Expression::from` through the public
// conversion API, tied to the Lean Model `Model/ConvOp.lean` + `Model/WOp.lean`.
//
// `c12-expr <le|be> <address size> <32|64> <version> <hex expression> <map> <hex .debug_addr>`
//
// The expression is the `DW_AT_location` of variable `x` in a small unit written with
// `gimli::write` (children of the root: base types `b0`, `b1`, variable `v0`, then `x`, then the
// *late* variable `v1`); the unit — plus the given raw `.debug_addr`, entries from offset 0 — is
// read with `gimli::read`, converted with `write::Dwarf::from` (`convert_address` refuses 0xdead),
// written, and the expression of `x` is taken from the output. Reply `ok <hex>` or
// `ok failed:<error>` (`R.<name>` = `ConvertError::Read`, `W.<name>` = write error).
// `<map>` tells the Model what the harness observed for an *empty* expression: `b<in>:<out>` per
// early target, `x<in>:<out>` for the carrier, `l<in>:<out>` for the late one (its output offset
// then moves with the size of the expression).
//
// Direct oracle (independent of the Model): input and output expressions are decoded with
// `gimli::read` and compared operation by operation — same operation and operands, references by
// the *name* of the DIE they designate in the input resp. output unit, branches by the index of the
// operation they land on, `addrx`/`constx` resolved through the table.

const EX_DEAD: u64 = 0xdead;

// `c12-vtexpr` (same arguments): the same with the expression as the `DW_AT_vtable_elem_location` of
// `x` — the converter copies such an expression verbatim when it is exactly one `DW_OP_constu`
// (the vtable index shape that gdb matches) and converts it like any other expression otherwise.
thread_local! {
    static EX_AT: std::cell::Cell<gimli::DwAt> = const { std::cell::Cell::new(gimli::DW_AT_location) };
}

fn ex_at() -> gimli::DwAt {
    EX_AT.with(|c| c.get())
}

fn ex_encoding(asz: &str, fmt: &str, ver: &str) -> Option<Encoding> {
    let address_size: u8 = asz.parse().ok()?;
    if !matches!(address_size, 4 | 8) {
        return None;
    }
    let version: u16 = ver.parse().ok()?;
    if !(2..=5).contains(&version) {
        return None;
    }
    Some(Encoding { address_size, version, format: match fmt { "32" => Format::Dwarf32, "64" => Format::Dwarf64, _ => return None } })
}

/// the input unit with `expr` as the location of `x`
fn ex_input(enc: Encoding, e: RunTimeEndian, expr: &[u8], addr: &[u8]) -> Result<Vec<(String, Vec<u8>)>, String> {
    let mut dwarf = write::Dwarf::new();
    let uid = dwarf.units.add(write::Unit::new(enc, write::LineProgram::none()));
    let unit = dwarf.units.get_mut(uid);
    let root = unit.root();
    unit.get_mut(root).set(gimli::DW_AT_name, WAttr::String(b"u".to_vec()));
    for (name, base) in [("b0", true), ("b1", true), ("v0", false), ("x", false), ("v1", false)] {
        let id = unit.add(root, if base { gimli::DW_TAG_base_type } else { gimli::DW_TAG_variable });
        unit.get_mut(id).set(gimli::DW_AT_name, WAttr::String(name.as_bytes().to_vec()));
        if base {
            unit.get_mut(id).set(gimli::DW_AT_byte_size, WAttr::Data1(4));
        }
        if name == "x" {
            unit.get_mut(id).set(ex_at(), WAttr::Exprloc(write::Expression::raw(expr.to_vec())));
        }
    }
    let mut sections = Sections::new(EndianVec::new(e));
    dwarf.write(&mut sections).map_err(|x| format!("input-write:{x:?}"))?;
    let mut secs = sections_to_vec(&mut sections);
    secs.retain(|(n, _)| n != "debug_addr");
    secs.push(("debug_addr".into(), addr.to_vec()));
    Ok(secs)
}

struct ExUnit {
    /// DIE name -> unit offset
    names: Vec<(String, u64)>,
    /// the location expression of `x`
    expr: Option<Vec<u8>>,
}

fn ex_read(secs: &[(String, Vec<u8>)], e: RunTimeEndian) -> Result<ExUnit, String> {
    let dwarf = load(secs, e);
    let mut units = dwarf.units();
    let h = units.next().map_err(|x| format!("{x:?}"))?.ok_or("no unit")?;
    let unit = dwarf.unit(h).map_err(|x| format!("{x:?}"))?;
    let mut names = Vec::new();
    let mut expr = None;
    let mut cur = unit.entries();
    let mut steps = 0;
    while let Some(entry) = cur.next_dfs().map_err(|x| format!("{x:?}"))? {
        steps += 1;
        if steps > 64 {
            return Err("too many entries".into());
        }
        let Some(a) = entry.attr_value(gimli::DW_AT_name) else { continue };
        let name = dwarf.attr_string(&unit, a).map_err(|x| format!("{x:?}"))?;
        let name = String::from_utf8_lossy(name.slice()).to_string();
        if name == "x" {
            if let Some(v) = entry.attr_value(ex_at()) {
                expr = v.exprloc_value().map(|x| x.0.slice().to_vec());
            }
        }
        names.push((name, entry.offset().0 as u64));
    }
    Ok(ExUnit { names, expr })
}

fn ex_convert(secs: &[(String, Vec<u8>)], e: RunTimeEndian) -> Result<Vec<(String, Vec<u8>)>, String> {
    let dwarf = load(secs, e);
    let conv = |a: u64| if a == EX_DEAD { None } else { Some(Address::Constant(a)) };
    let mut w = write::Dwarf::from(&dwarf, &conv).map_err(|x| match x {
        write::ConvertError::Read(r) => format!("R.{}", crate::util::rerr(&r)),
        write::ConvertError::Write(w) => crate::util::werr(&w),
        other => format!("{other:?}").split('(').next().unwrap().to_string(),
    })?;
    let mut sections = Sections::new(EndianVec::new(e));
    w.write(&mut sections).map_err(|x| crate::util::werr(&x))?;
    Ok(sections_to_vec(&mut sections))
}

/// decoded operations with start/end offsets
fn ex_decode<'a>(bs: &'a [u8], e: RunTimeEndian, enc: Encoding) -> Result<Vec<(gimli::Operation<R<'a>>, usize, usize)>, String> {
    let x = gimli::Expression(R::new(bs, e));
    let mut it = x.clone().operations(enc);
    let mut out = Vec::new();
    let mut start = 0;
    loop {
        match it.next() {
            Ok(Some(op)) => {
                let end = it.offset_from(&x);
                out.push((op, start, end));
                start = end;
            }
            Ok(None) => return Ok(out),
            Err(er) => return Err(crate::util::rerr(&er)),
        }
        if out.len() > bs.len() + 1 {
            return Err("steps".into());
        }
    }
}

struct ExCmp<'a> {
    e: RunTimeEndian,
    enc: Encoding,
    inn: &'a [(String, u64)],
    out: &'a [(String, u64)],
    addr: &'a [u8],
}

impl<'a> ExCmp<'a> {
    fn name_in(&self, o: u64) -> Option<&str> {
        self.inn.iter().find(|p| p.1 == o).map(|p| p.0.as_str())
    }
    fn name_out(&self, o: u64) -> Option<&str> {
        self.out.iter().find(|p| p.1 == o).map(|p| p.0.as_str())
    }
    fn same_ref(&self, k: usize, i: u64, o: u64) -> Result<(), String> {
        match (self.name_in(i), self.name_out(o)) {
            (Some(a), Some(b)) if a == b => Ok(()),
            (a, b) => Err(format!("ref-retargeted operation {k}: input reference {i} ({a:?}) became {o} ({b:?})")),
        }
    }
    fn table(&self, index: u64) -> Option<u64> {
        let n = self.enc.address_size as usize;
        let at = (index as usize).checked_mul(n)?;
        let b = self.addr.get(at..at.checked_add(n)?)?;
        let mut v: u64 = 0;
        for k in 0..n {
            let byte = if self.e == RunTimeEndian::Little { b[n - 1 - k] } else { b[k] };
            v = (v << 8) | byte as u64;
        }
        Some(v)
    }

    fn cmp(&self, a: &[u8], b: &[u8], depth: usize) -> Result<(), String> {
        use gimli::{DieReference, Operation as O};
        if depth > 64 {
            return Ok(());
        }
        let ia = ex_decode(a, self.e, self.enc).map_err(|x| format!("input-undecodable {x} although the conversion succeeded"))?;
        let ob = ex_decode(b, self.e, self.enc).map_err(|x| format!("output-undecodable {x}"))?;
        if ia.len() != ob.len() {
            return Err(format!("ops-differ {} operations in, {} out", ia.len(), ob.len()));
        }
        let index_of = |v: &[(O<R>, usize, usize)], off: i64, len: usize| -> Option<usize> {
            if off == len as i64 { Some(v.len()) } else { v.iter().position(|p| p.1 as i64 == off) }
        };
        for (k, ((x, _, xe), (y, _, ye))) in ia.iter().zip(ob.iter()).enumerate() {
            let differ = || Err(format!("ops-differ operation {k}: input {x:?} output {y:?}"));
            match (x, y) {
                (O::Bra { target: t1 }, O::Bra { target: t2 }) | (O::Skip { target: t1 }, O::Skip { target: t2 }) => {
                    let i1 = index_of(&ia, *xe as i64 + *t1 as i64, a.len());
                    let i2 = index_of(&ob, *ye as i64 + *t2 as i64, b.len());
                    if i1.is_none() || i1 != i2 {
                        return Err(format!("branch-retargeted operation {k}: input lands on operation {i1:?}, output on {i2:?}"));
                    }
                }
                (O::Deref { base_type: b1, size: s1, space: p1 }, O::Deref { base_type: b2, size: s2, space: p2 }) => {
                    if s1 != s2 || p1 != p2 || (b1.0 == 0) != (b2.0 == 0) {
                        return differ();
                    }
                    if b1.0 != 0 {
                        self.same_ref(k, b1.0 as u64, b2.0 as u64)?;
                    }
                }
                (O::RegisterOffset { register: r1, offset: o1, base_type: b1 }, O::RegisterOffset { register: r2, offset: o2, base_type: b2 }) => {
                    if r1 != r2 || o1 != o2 || (b1.0 == 0) != (b2.0 == 0) {
                        return differ();
                    }
                    if b1.0 != 0 {
                        self.same_ref(k, b1.0 as u64, b2.0 as u64)?;
                    }
                }
                (O::TypedLiteral { base_type: b1, value: v1 }, O::TypedLiteral { base_type: b2, value: v2 }) => {
                    if v1.slice() != v2.slice() {
                        return differ();
                    }
                    self.same_ref(k, b1.0 as u64, b2.0 as u64)?;
                }
                (O::Convert { base_type: b1 }, O::Convert { base_type: b2 }) | (O::Reinterpret { base_type: b1 }, O::Reinterpret { base_type: b2 }) => {
                    if (b1.0 == 0) != (b2.0 == 0) {
                        return differ();
                    }
                    if b1.0 != 0 {
                        self.same_ref(k, b1.0 as u64, b2.0 as u64)?;
                    }
                }
                (O::ParameterRef { offset: b1 }, O::ParameterRef { offset: b2 }) => self.same_ref(k, b1.0 as u64, b2.0 as u64)?,
                (O::Call { offset: DieReference::UnitRef(b1) }, O::Call { offset: DieReference::UnitRef(b2) }) => self.same_ref(k, b1.0 as u64, b2.0 as u64)?,
                // one unit at .debug_info offset 0 on both sides: section offsets are unit offsets
                (O::Call { offset: DieReference::DebugInfoRef(b1) }, O::Call { offset: DieReference::DebugInfoRef(b2) }) => self.same_ref(k, b1.0 as u64, b2.0 as u64)?,
                (O::VariableValue { offset: b1 }, O::VariableValue { offset: b2 }) => self.same_ref(k, b1.0 as u64, b2.0 as u64)?,
                (O::ImplicitPointer { value: b1, byte_offset: o1 }, O::ImplicitPointer { value: b2, byte_offset: o2 }) => {
                    if o1 != o2 {
                        return differ();
                    }
                    self.same_ref(k, b1.0 as u64, b2.0 as u64)?;
                }
                (O::EntryValue { expression: e1 }, O::EntryValue { expression: e2 }) => self.cmp(e1.slice(), e2.slice(), depth + 1)?,
                (O::ImplicitValue { data: d1 }, O::ImplicitValue { data: d2 }) => {
                    if d1.slice() != d2.slice() {
                        return differ();
                    }
                }
                (O::AddressIndex { index }, O::Address { address }) => {
                    if self.table(index.0 as u64) != Some(*address) {
                        return differ();
                    }
                }
                (O::ConstantIndex { index }, O::UnsignedConstant { value }) => {
                    if self.table(index.0 as u64) != Some(*value) {
                        return differ();
                    }
                }
                _ => {
                    // everything else carries plain operands: the operations must be equal
                    if format!("{x:?}") != format!("{y:?}") {
                        return differ();
                    }
                }
            }
        }
        Ok(())
    }
}

fn c12_expr(e: RunTimeEndian, enc: Encoding, expr: &[u8], addr: &[u8]) -> String {
    let secs_a = match ex_input(enc, e, expr, addr) {
        Ok(s) => s,
        Err(x) => return format!("ok input-rejected:{x}"),
    };
    let secs_b = match ex_convert(&secs_a, e) {
        Ok(b) => b,
        Err(x) => return format!("ok failed:{x}"),
    };
    let (ua, ub) = match (ex_read(&secs_a, e), ex_read(&secs_b, e)) {
        (Ok(a), Ok(b)) => (a, b),
        (a, b) => return format!("ok ? #oracle:readback input {:?} output {:?}", a.err(), b.err()),
    };
    let Some(out) = ub.expr.clone() else { return "ok ? #oracle:lost the location of x is gone".into() };
    let mut reply = format!("ok {}", hex(&out));
    let cmp = ExCmp { e, enc, inn: &ua.names, out: &ub.names, addr };
    if let Err(why) = cmp.cmp(expr, &out, 0) {
        reply.push_str(" #oracle:");
        reply.push_str(&why);
    }
    reply
}

/// what the Model is told about the unit: observed with an empty expression
fn ex_map(enc: Encoding, e: RunTimeEndian) -> Option<String> {
    let a = ex_input(enc, e, &[], &[]).ok()?;
    let b = ex_convert(&a, e).ok()?;
    let (ua, ub) = (ex_read(&a, e).ok()?, ex_read(&b, e).ok()?);
    let mut parts = Vec::new();
    for (name, kind) in [("b0", 'b'), ("b1", 'b'), ("v0", 'b'), ("x", 'x'), ("v1", 'l')] {
        let i = ua.names.iter().find(|p| p.0 == name)?.1;
        let o = ub.names.iter().find(|p| p.0 == name)?.1;
        parts.push(format!("{kind}{i}:{o}"));
    }
    Some(parts.join(","))
}

// ------------------------------------------------------------------------------------------------
// generator

/// one assembled operation: bytes, or a branch whose displacement is filled in afterwards
enum ExItem {
    Bytes(Vec<u8>),
    /// opcode, target
    Branch(u8, ExTarget),
}

#[derive(Clone, Copy)]
enum ExTarget {
    /// start of operation `k` (`k = len`: the end)
    Index(usize),
    /// one byte into operation `k`: not an operation boundary
    Middle(usize),
    /// a raw displacement
    Raw(i16),
}

struct ExGen<'a> {
    enc: Encoding,
    e: RunTimeEndian,
    /// (kind, input offset) of the DIEs before and including the carrier
    targets: &'a [(char, u64)],
    /// input offset of the late DIE `v1` (it follows the carrier, so it moves with the length of
    /// the expression: used in fixed-width reference fields only)
    late: u64,
}

fn ex_fixed(v: u64, n: usize, e: RunTimeEndian) -> Vec<u8> {
    let le = v.to_le_bytes();
    if e == RunTimeEndian::Little { le[..n].to_vec() } else { le[..n].iter().rev().copied().collect() }
}

fn ex_u64(r: &mut Rng) -> u64 {
    match r.below(8) {
        0 | 1 => *r.pick(&[0u64, 1, 31, 32, 127, 128, 255, 256, 65535, 65536, 0xffff_ffff, 0x1_0000_0000]),
        2 | 3 => r.boundary_u64(),
        4 => r.below(64),
        _ => r.next() >> r.below(64),
    }
}

fn ex_i64(r: &mut Rng) -> i64 {
    match r.below(6) {
        0 | 1 => *r.pick(&[0i64, 1, -1, 63, 64, -64, -65, 127, 128, -128, -129, i64::MAX, i64::MIN]),
        2 => r.boundary_i64(),
        3 => r.below(200) as i64 - 100,
        _ => (r.next() as i64) >> r.below(64),
    }
}

impl<'a> ExGen<'a> {
    fn word(&self) -> usize {
        self.enc.format.word_size() as usize
    }
    /// a unit offset: mostly a valid DIE, sometimes dangling
    fn uref(&self, r: &mut Rng, typed: bool) -> u64 {
        match r.below(12) {
            0 => self.targets[r.below(self.targets.len() as u64) as usize].1 + 1, // inside a DIE
            1 => *r.pick(&[0u64, 1, 5, 200, 0xffff, 0xffff_ffff]),
            2 if !typed => self.late,
            3 if !typed => self.targets[r.below(self.targets.len() as u64) as usize].1,
            2 => self.targets[r.below(self.targets.len() as u64) as usize].1, // typed op -> any early DIE, base type or not
            _ => self.targets[r.below(2) as usize].1, // a base type
        }
    }
    fn one(&self, r: &mut Rng, depth: usize, nops: usize, k: usize) -> ExItem {
        let gnu = self.enc.version < 5 && r.chance(2, 3) || r.chance(1, 6);
        let pickop = |std: u8, g: u8| if gnu { g } else { std };
        let b = |v: Vec<u8>| ExItem::Bytes(v);
        loop {
            return match r.below(40) {
                0 => b(vec![0x30 + r.below(32) as u8]),
                1 => {
                    let v = ex_u64(r);
                    let (opc, n) = *r.pick(&[(0x08u8, 1usize), (0x0a, 2), (0x0c, 4), (0x0e, 8)]);
                    let mut o = vec![opc];
                    o.extend(ex_fixed(v, n, self.e));
                    b(o)
                }
                2 => {
                    let v = ex_i64(r);
                    let (opc, n) = *r.pick(&[(0x09u8, 1usize), (0x0b, 2), (0x0d, 4), (0x0f, 8)]);
                    let mut o = vec![opc];
                    o.extend(ex_fixed(v as u64, n, self.e));
                    b(o)
                }
                3 => { let mut o = vec![0x10]; o.extend(asm::uleb(ex_u64(r))); b(o) }
                4 => { let mut o = vec![0x11]; o.extend(asm::sleb(ex_i64(r))); b(o) }
                5 => {
                    let mask = if self.enc.address_size == 8 { u64::MAX } else { 0xffff_ffff };
                    let v = if r.chance(1, 6) { EX_DEAD } else { ex_u64(r) & mask };
                    let mut o = vec![0x03];
                    o.extend(ex_fixed(v, self.enc.address_size as usize, self.e));
                    b(o)
                }
                6 => b(vec![*r.pick(&[0x06u8, 0x18])]),
                7 => b(vec![*r.pick(&[0x94u8, 0x95]), *r.pick(&[self.enc.address_size, 1, 2, 4, 8, 0, 255])]),
                8 => b(vec![*r.pick(&[0x12u8, 0x13, 0x14, 0x16, 0x17, 0x96, 0x97, 0x9b, 0xe0, 0x9c, 0x9f, 0xf0])]),
                9 => b(vec![0x15, *r.pick(&[0u8, 1, 2, 3, 255])]),
                10 | 11 => b(vec![*r.pick(&[0x19u8, 0x1a, 0x1b, 0x1c, 0x1d, 0x1e, 0x1f, 0x20, 0x21, 0x22, 0x24, 0x25, 0x26, 0x27, 0x29, 0x2a, 0x2b, 0x2c, 0x2d, 0x2e])]),
                12 => { let mut o = vec![0x23]; o.extend(asm::uleb(ex_u64(r))); b(o) }
                13 => b(vec![0x50 + r.below(32) as u8]),
                14 => { let mut o = vec![0x70 + r.below(32) as u8]; o.extend(asm::sleb(ex_i64(r))); b(o) }
                15 => { let mut o = vec![0x90]; o.extend(asm::uleb(*r.pick(&[0u64, 31, 32, 127, 128, 65535, 65536, 1 << 40]))); b(o) }
                16 => { let mut o = vec![0x91]; o.extend(asm::sleb(ex_i64(r))); b(o) }
                17 => { let mut o = vec![0x92]; o.extend(asm::uleb(*r.pick(&[0u64, 31, 32, 65535, 65536]))); o.extend(asm::sleb(ex_i64(r))); b(o) }
                18 => { let mut o = vec![0x93]; o.extend(asm::uleb(if r.chance(1, 6) { *r.pick(&[(1u64 << 61) - 1, 1 << 61, u64::MAX]) } else { ex_u64(r) >> 4 })); b(o) }
                19 => { let mut o = vec![0x9d]; o.extend(asm::uleb(ex_u64(r))); o.extend(asm::uleb(ex_u64(r))); b(o) }
                20 => { let mut o = vec![0x98]; o.extend(ex_fixed(self.uref(r, false) & 0xffff, 2, self.e)); b(o) }
                21 => { let mut o = vec![0x99]; o.extend(ex_fixed(self.uref(r, false) & 0xffff_ffff, 4, self.e)); b(o) }
                22 => { let mut o = vec![*r.pick(&[0x9au8, 0xfd])]; o.extend(ex_fixed(self.uref(r, false), self.word(), self.e)); b(o) }
                23 => {
                    let n = r.below(6) as usize;
                    let mut o = vec![0x9e];
                    o.extend(asm::uleb(n as u64));
                    o.extend(r.bytes(n));
                    b(o)
                }
                24 => {
                    let n = if self.enc.version == 2 { self.enc.address_size as usize } else { self.word() };
                    let mut o = vec![pickop(0xa0, 0xf2)];
                    o.extend(ex_fixed(self.uref(r, false) & if n == 4 { 0xffff_ffff } else { u64::MAX }, n, self.e));
                    o.extend(asm::sleb(ex_i64(r)));
                    b(o)
                }
                25 => { let mut o = vec![pickop(0xa1, 0xfb)]; o.extend(asm::uleb(*r.pick(&[0u64, 1, 2, 3, 4, 100, u64::MAX, 1 << 61]))); b(o) }
                26 => { let mut o = vec![pickop(0xa2, 0xfc)]; o.extend(asm::uleb(*r.pick(&[0u64, 1, 2, 3, 4, 100, u64::MAX, 1 << 62]))); b(o) }
                27 | 28 if depth < 3 => {
                    let n = r.below(5) as usize;
                    let inner = self.prog(r, depth + 1, n);
                    let mut o = vec![pickop(0xa3, 0xf3)];
                    o.extend(asm::uleb(inner.len() as u64));
                    o.extend(inner);
                    b(o)
                }
                29 => {
                    let n = *r.pick(&[0usize, 1, 4, 8, 16]);
                    let mut o = vec![pickop(0xa4, 0xf4)];
                    o.extend(asm::uleb(self.uref(r, true)));
                    o.push(n as u8);
                    o.extend(r.bytes(n));
                    b(o)
                }
                30 => { let mut o = vec![pickop(0xa5, 0xf5)]; o.extend(asm::uleb(*r.pick(&[0u64, 31, 32, 65535]))); o.extend(asm::uleb(if r.chance(1, 8) { 0 } else { self.uref(r, true) })); b(o) }
                31 => { let mut o = vec![if r.chance(1, 4) { 0xa7 } else { pickop(0xa6, 0xf6) }, *r.pick(&[self.enc.address_size, 1, 4, 8])]; o.extend(asm::uleb(if r.chance(1, 8) { 0 } else { self.uref(r, true) })); b(o) }
                32 => { let mut o = vec![if r.chance(1, 2) { pickop(0xa8, 0xf7) } else { pickop(0xa9, 0xf9) }]; o.extend(asm::uleb(if r.chance(1, 4) { 0 } else { self.uref(r, true) })); b(o) }
                33 => { let mut o = vec![0xfa]; o.extend(ex_fixed(self.uref(r, false) & 0xffff_ffff, 4, self.e)); b(o) }
                34 => {
                    let kind = r.below(4) as u8;
                    let mut o = vec![0xed, kind];
                    let v = *r.pick(&[0u32, 1, 127, 128, u32::MAX]);
                    if kind == 3 { o.extend(ex_fixed(v as u64, 4, self.e)) } else { o.extend(asm::uleb(v as u64)) }
                    b(o)
                }
                35..=38 if nops > 1 => {
                    let opc = *r.pick(&[0x2fu8, 0x28]);
                    let t = match r.below(12) {
                        0 => ExTarget::Middle(r.below(nops as u64) as usize),
                        1 => ExTarget::Raw(*r.pick(&[i16::MIN, i16::MAX, -1, -2, 1000, -1000])),
                        2 => ExTarget::Index(nops),
                        3 => ExTarget::Index(k), // itself
                        _ => ExTarget::Index(r.below(nops as u64 + 1) as usize),
                    };
                    ExItem::Branch(opc, t)
                }
                _ => continue,
            };
        }
    }

    /// assemble a program of `n` operations
    fn prog(&self, r: &mut Rng, depth: usize, n: usize) -> Vec<u8> {
        let items: Vec<ExItem> = (0..n).map(|k| self.one(r, depth, n, k)).collect();
        let lens: Vec<usize> = items.iter().map(|i| match i { ExItem::Bytes(b) => b.len(), ExItem::Branch(..) => 3 }).collect();
        let mut starts = vec![0usize];
        for l in &lens {
            starts.push(starts.last().unwrap() + l);
        }
        let mut out = Vec::new();
        for (k, it) in items.iter().enumerate() {
            match it {
                ExItem::Bytes(b) => out.extend_from_slice(b),
                ExItem::Branch(opc, t) => {
                    let after = starts[k + 1] as i64;
                    let d: i64 = match t {
                        ExTarget::Index(i) => starts[*i] as i64 - after,
                        ExTarget::Middle(i) => starts[*i] as i64 + 1 - after,
                        ExTarget::Raw(d) => *d as i64,
                    };
                    out.push(*opc);
                    out.extend(ex_fixed(d as i16 as u16 as u64, 2, self.e));
                }
            }
        }
        out
    }
}

fn ex_gen(ctx: &Ctx, emit: &mut dyn FnMut(String)) {
    let mut r = ctx.rng(1212);
    let mut maps: std::collections::HashMap<(u16, u8, u8, bool, bool), Option<(String, Vec<(char, u64)>, u64)>> = std::collections::HashMap::new();
    // set while the vtable-slot cases are generated: the carrier attribute is DW_AT_vtable_elem_location
    let vt = std::cell::Cell::new(false);
    let table = |enc: Encoding, e: RunTimeEndian| -> Vec<u8> {
        let n = enc.address_size as usize;
        let mut t = Vec::new();
        for v in [0x1000u64, EX_DEAD, 0x7fff_fff0, 31] {
            t.extend(ex_fixed(v, n, e));
        }
        t
    };
    let mut case = |r: &mut Rng, body: &mut dyn FnMut(&mut Rng, &ExGen) -> Vec<u8>, emit: &mut dyn FnMut(String)| {
        let enc = Encoding { version: *r.pick(&[2u16, 3, 4, 5]), format: *r.pick(&[Format::Dwarf32, Format::Dwarf64]), address_size: *r.pick(&[4u8, 8]) };
        let e = *r.pick(&[RunTimeEndian::Little, RunTimeEndian::Little, RunTimeEndian::Big]);
        let key = (enc.version, enc.format.word_size(), enc.address_size, e == RunTimeEndian::Little, vt.get());
        let m = maps.entry(key).or_insert_with(|| {
            EX_AT.with(|c| c.set(if vt.get() { gimli::DW_AT_vtable_elem_location } else { gimli::DW_AT_location }));
            let s = ex_map(enc, e);
            EX_AT.with(|c| c.set(gimli::DW_AT_location));
            let s = s?;
            let all: Vec<(char, u64)> = s.split(',').map(|p| (p.chars().next().unwrap(), p[1..].split(':').next().unwrap().parse().unwrap())).collect();
            let late0 = all.iter().find(|p| p.0 == 'l')?.1;
            Some((s, all.into_iter().filter(|p| p.0 != 'l').collect(), late0))
        });
        let Some((ms, targets, late0)) = m.clone() else { return };
        // two passes with the same random choices: the first tells the length of the expression,
        // which fixes the input offset of the late DIE (references to it are fixed-width fields)
        let r0 = r.clone();
        let len = body(r, &ExGen { enc, e, targets: &targets, late: 0 }).len() as u64;
        *r = r0;
        let g = ExGen { enc, e, targets: &targets, late: late0 - 1 + asm::uleb(len).len() as u64 + len };
        let x = body(r, &g);
        let tab = if r.chance(1, 10) { Vec::new() } else { table(enc, e) };
        emit(format!(
            "{} {} {} {} {} {} {} {}",
            if vt.get() { "c12-vtexpr" } else { "c12-expr" },
            if e == RunTimeEndian::Little { "le" } else { "be" },
            enc.address_size,
            if enc.format == Format::Dwarf32 { "32" } else { "64" },
            enc.version,
            hex(&x),
            ms,
            hex(&tab)
        ));
    };
    // every opcode byte with boundary / random operand bytes (most are rejected by the reader or
    // converted on their own)
    for round in 0..ctx.n(4, 40) {
        for opc in 0..=255u8 {
            case(&mut r, &mut |r, g| {
                let mut x = vec![opc];
                match round % 4 {
                    0 => x.extend(r.bytes_below(12)),
                    1 => x.extend(std::iter::repeat(*r.pick(&[0u8, 0x7f, 0x80, 0xff])).take(r.below(11) as usize)),
                    2 => {
                        x.extend(asm::uleb(g.uref(r, true)));
                        x.extend(r.bytes_below(6));
                    }
                    _ => x.extend(ex_fixed(g.uref(r, false), 8, g.e)),
                }
                x
            }, emit);
        }
    }
    // structured programs: every operation form, references, branches of every kind
    for _ in 0..ctx.n(9000, 150_000) {
        case(&mut r, &mut |r, g| {
            let n = match r.below(10) { 0 => 0, 1..=5 => r.range(1, 5) as usize, 6..=8 => r.range(5, 12) as usize, _ => r.range(12, 30) as usize };
            g.prog(r, 0, n)
        }, emit);
    }
    // malformed: truncations and byte edits of structured programs
    for _ in 0..ctx.n(1500, 30_000) {
        case(&mut r, &mut |r, g| {
            let n = r.range(1, 8) as usize;
            let mut x = g.prog(r, 0, n);
            if !x.is_empty() {
                match r.below(3) {
                    0 => { let k = r.below(x.len() as u64) as usize; x.truncate(k) }
                    1 => { let k = r.below(x.len() as u64) as usize; x[k] = r.next() as u8 }
                    _ => { let k = r.below(x.len() as u64) as usize; x.remove(k); }
                }
            }
            x
        }, emit);
    }
    // long bodies: a converted branch whose output distance leaves i16 (the output encoding of
    // the body is longer than the input's)
    for k in 0..ctx.n(6, 30) {
        case(&mut r, &mut |r, g| {
            // skip over n `const1u 0` (2 bytes each in, 1 byte out: lit0) / `const8u big` (9 in, up to 11 out)
            let n = 3400 + (20 * k) % 200 + r.below(20) as usize;
            let mut x = vec![0x2f];
            x.extend(ex_fixed((9 * n) as u64 & 0xffff, 2, g.e));
            for _ in 0..n {
                x.push(0x0e);
                x.extend_from_slice(&[0xff; 8]);
            }
            x
        }, emit);
    }
    // vtable slots: DW_AT_vtable_elem_location is copied verbatim only when it is exactly `DW_OP_constu n`
    vt.set(true);
    for i in 0..ctx.n(1500, 20_000) {
        case(&mut r, &mut |r, g| {
            let n = *r.pick(&[0u64, 1, 5, 31, 32, 127, 128, 300, u64::MAX]);
            let head: Vec<u8> = match i % 6 {
                // the vtable index shape
                0 | 1 => { let mut x = vec![0x10]; x.extend(asm::uleb(n)); x }
                // other encodings of a constant (converted: the writer picks the shortest)
                2 => if n < 32 { vec![0x30 + n as u8] } else { let mut x = vec![0x08]; x.push(n as u8); x },
                _ => Vec::new(),
            };
            let mut x = head;
            if i % 6 != 0 {
                let k = r.range(if i % 6 == 1 { 1 } else { 0 }, 5) as usize;
                x.extend(g.prog(r, 0, k));
            }
            x
        }, emit);
    }
    vt.set(false);
    // nesting: 64 levels convert, the 65th nested entry_value is UnsupportedOperation (never a crash)
    for depth in [1usize, 2, 8, 40, 63, 64, 65, 66, 200, 3000] {
        case(&mut r, &mut |_r, g| {
            let mut x = vec![0x50u8];
            for _ in 0..depth {
                let mut o = vec![if g.enc.version >= 5 { 0xa3 } else { 0xf3 }];
                o.extend(asm::uleb(x.len() as u64));
                o.extend(x);
                x = o;
            }
            x
        }, emit);
    }
}
