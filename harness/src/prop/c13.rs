//! C13 — written line programs read back to exactly the rows that were generated.
//!
//! Implementation side of the `wline-*` ops (grammar: lean/Gimli/Drv/C13.lean) and the direct
//! oracles, all independent of the Lean Model:
//!   * `readback`       a program written by `gimli::write::LineProgram` and read with
//!                      `gimli::read` does not give the rows / file table that were requested
//!   * `bigline`        the same, when a requested line number is >= 2^63
//!   * `file-ids`       `add_file`/`add_directory` ids are not a function of the key
//!   * `new-rejects`    `LineProgram::new` panics on line_base <= 0 < line_base + line_range
use crate::prop::{Ctx, Tier};
use crate::util::{digest_step, hex, rerr, unhex, werr, Rng, DIGEST_INIT};
use gimli::read;
use gimli::write::{
    Address, DebugLine, DebugLineStr, DebugStr, DirectoryId, EndianVec, FileId, FileInfo, LineProgram, LineString,
    LineStringTable, StringTable,
};
use gimli::{DebugLineOffset, Encoding, EndianSlice, Format, LineEncoding, RunTimeEndian};
use std::collections::HashMap;
use std::panic::{catch_unwind, AssertUnwindSafe};

type R<'a> = EndianSlice<'a, RunTimeEndian>;

fn panic_msg(p: Box<dyn std::any::Any + Send>) -> String {
    if let Some(s) = p.downcast_ref::<&str>() {
        s.to_string()
    } else if let Some(s) = p.downcast_ref::<String>() {
        s.clone()
    } else {
        "?".into()
    }
    .replace('\n', " ")
}

// ---------------------------------------------------------------------------------------------
// parameters
// ---------------------------------------------------------------------------------------------

#[derive(Clone, Debug)]
struct Par {
    big: bool,
    fmt64: bool,
    ver: u16,
    asz: u8,
    minlen: u8,
    maxops: u8,
    stmt: bool,
    lbase: i8,
    lrange: u8,
}

impl Par {
    fn encoding(&self) -> Encoding {
        Encoding { format: if self.fmt64 { Format::Dwarf64 } else { Format::Dwarf32 }, version: self.ver, address_size: self.asz }
    }
    fn line_encoding(&self) -> LineEncoding {
        LineEncoding {
            minimum_instruction_length: self.minlen,
            maximum_operations_per_instruction: self.maxops,
            default_is_stmt: self.stmt,
            line_base: self.lbase,
            line_range: self.lrange,
        }
    }
    fn endian(&self) -> RunTimeEndian {
        if self.big { RunTimeEndian::Big } else { RunTimeEndian::Little }
    }
    /// line_base <= 0 < line_base + line_range: the documented requirement of `LineProgram::new`
    fn base_range_ok(&self) -> bool {
        self.lbase <= 0 && (self.lbase as i32 + self.lrange as i32) > 0
    }
    /// parameters a reader accepts and under which rows are meaningful
    fn readable(&self) -> bool {
        self.minlen >= 1
            && self.maxops >= 1
            && (self.ver >= 4 || self.maxops == 1)
            && matches!(self.asz, 1 | 2 | 4 | 8)
            && (2..=5).contains(&self.ver)
            && self.base_range_ok()
    }
    fn mask(&self) -> u64 {
        if self.asz >= 8 { u64::MAX } else { (1u64 << (8 * self.asz as u32)) - 1 }
    }
}

/// `ver asz minlen maxops stmt lbase lrange` (7 tokens)
fn parse_enc(a: &[&str], big: bool, fmt64: bool) -> Option<Par> {
    if a.len() != 7 {
        return None;
    }
    Some(Par {
        big,
        fmt64,
        ver: a[0].parse().ok()?,
        asz: a[1].parse().ok()?,
        minlen: a[2].parse().ok()?,
        maxops: a[3].parse().ok()?,
        stmt: a[4].parse::<u8>().ok()? != 0,
        lbase: a[5].parse().ok()?,
        lrange: a[6].parse().ok()?,
    })
}

fn s(v: &[u8]) -> LineString {
    LineString::String(v.to_vec())
}

fn new_program(p: &Par) -> LineProgram {
    LineProgram::new(p.encoding(), p.line_encoding(), s(b"d"), None, s(b"f"), None)
}

// ---------------------------------------------------------------------------------------------
// rows
// ---------------------------------------------------------------------------------------------

#[derive(Clone, Copy, Debug, PartialEq, Eq)]
struct RowReq {
    off: u64,
    op: u64,
    file: Option<u64>,
    line: u64,
    col: u64,
    disc: Option<u64>, // None: leave what generate_row left (0)
    flags: u64, // 16: leave basic_block/prologue_end/epilogue_begin as generate_row left them (false); 1 stmt, 2 basic_block, 4 prologue_end, 8 epilogue_begin
    isa: u64,
}

fn parse_row(t: &str) -> Option<RowReq> {
    let f: Vec<&str> = t.split(',').collect();
    if f.len() != 8 {
        return None;
    }
    Some(RowReq {
        off: f[0].parse().ok()?,
        op: f[1].parse().ok()?,
        file: if f[2] == "~" { None } else { Some(f[2].parse().ok()?) },
        line: f[3].parse().ok()?,
        col: f[4].parse().ok()?,
        disc: if f[5] == "~" { None } else { Some(f[5].parse().ok()?) },
        flags: f[6].parse().ok()?,
        isa: f[7].parse().ok()?,
    })
}

fn set_row(prog: &mut LineProgram, r: &RowReq) {
    let fid: Option<FileId> = r.file.and_then(|k| prog.files().nth(k as usize).map(|x| x.0));
    let row = prog.row();
    row.address_offset = r.off;
    row.op_index = r.op;
    if let Some(f) = fid {
        row.file = f;
    }
    row.line = r.line;
    row.column = r.col;
    if let Some(d) = r.disc {
        row.discriminator = d;
    }
    row.is_statement = r.flags & 1 != 0;
    if r.flags & 16 == 0 {
        row.basic_block = r.flags & 2 != 0;
        row.prologue_end = r.flags & 4 != 0;
        row.epilogue_begin = r.flags & 8 != 0;
    }
    row.isa = r.isa;
}

/// index inside a `FileId` / `DirectoryId` (no public accessor: take it from the Debug text)
fn id_index<T: std::fmt::Debug>(id: &T) -> u64 {
    let t = format!("{:?}", id);
    t.chars().filter(|c| c.is_ascii_digit()).collect::<String>().parse().unwrap_or(u64::MAX)
}

struct Written {
    line: Vec<u8>,
    line_str: Vec<u8>,
    str_: Vec<u8>,
}

fn write_program(
    p: &Par,
    prog: &LineProgram,
    unit: Encoding,
    ls: &mut LineStringTable,
    st: &mut StringTable,
) -> Result<Written, gimli::write::Error> {
    let mut w = DebugLine::from(EndianVec::new(p.endian()));
    prog.write(&mut w, unit, ls, st)?;
    let mut wl = DebugLineStr::from(EndianVec::new(p.endian()));
    ls.write(&mut wl)?;
    let mut ws = DebugStr::from(EndianVec::new(p.endian()));
    st.write(&mut ws)?;
    Ok(Written { line: w.slice().to_vec(), line_str: wl.slice().to_vec(), str_: ws.slice().to_vec() })
}

/// offset of the first instruction byte of the (only) program in `.debug_line`
fn program_start(sec: &[u8], big: bool) -> Option<usize> {
    let rd = |o: usize, n: usize| -> Option<u64> {
        let b = sec.get(o..o + n)?;
        let mut v = 0u64;
        for i in 0..n {
            let x = if big { b[i] } else { b[n - 1 - i] };
            v = (v << 8) | x as u64;
        }
        Some(v)
    };
    let mut o = 0;
    let fmt64 = rd(0, 4)? == 0xffff_ffff;
    o += if fmt64 { 12 } else { 4 };
    let ver = rd(o, 2)?;
    o += 2;
    if ver >= 5 {
        o += 2;
    }
    let w = if fmt64 { 8 } else { 4 };
    let hl = rd(o, w)? as usize;
    Some(o + w + hl)
}

#[derive(Clone, Debug, PartialEq, Eq)]
struct GotRow {
    addr: u64,
    op: u64,
    file: u64,
    line: u64,
    col: u64,
    disc: u64,
    flags: u64,
    isa: u64,
    end: bool,
}

fn read_rows(p: &Par, sec: &[u8], comp_dir: Option<&[u8]>) -> Result<Vec<GotRow>, String> {
    let e = p.endian();
    let dl = read::DebugLine::new(sec, e);
    let prog = dl
        .program(DebugLineOffset(0), p.asz, comp_dir.map(|d| EndianSlice::new(d, e)), None)
        .map_err(|x| format!("header:{:?}", x))?;
    let mut rows = prog.rows();
    let mut out = Vec::new();
    let mut guard = 0usize;
    loop {
        guard += 1;
        if guard > 4 * sec.len() + 16 {
            return Err("steps".into());
        }
        match rows.next_row() {
            Ok(Some((_, r))) => out.push(GotRow {
                addr: r.address(),
                op: r.op_index(),
                file: r.file_index(),
                line: r.line().map(|l| l.get()).unwrap_or(0),
                col: match r.column() {
                    read::ColumnType::LeftEdge => 0,
                    read::ColumnType::Column(c) => c.get(),
                },
                disc: r.discriminator(),
                flags: (r.is_stmt() as u64) | (r.basic_block() as u64) << 1 | (r.prologue_end() as u64) << 2 | (r.epilogue_begin() as u64) << 3,
                isa: r.isa(),
                end: r.end_sequence(),
            }),
            Ok(None) => break,
            Err(x) => return Err(format!("row:{:?}", x)),
        }
    }
    Ok(out)
}

/// decoded instructions of the program bytes, in the token vocabulary of C04's `instrS`
fn instr_tokens(p: &Par, sec: &[u8]) -> String {
    let e = p.endian();
    let dl = read::DebugLine::new(sec, e);
    let Ok(prog) = dl.program(DebugLineOffset(0), p.asz, None, None) else { return "hdr-err".into() };
    let h = prog.header();
    let mut it = h.instructions();
    let mut out: Vec<String> = Vec::new();
    loop {
        match it.next_instruction(h) {
            Ok(Some(i)) => {
                use read::LineInstruction as I;
                out.push(match i {
                    I::Special(n) => format!("sp:{n}"),
                    I::Copy => "cp".into(),
                    I::AdvancePc(n) => format!("apc:{n}"),
                    I::AdvanceLine(n) => format!("al:{n}"),
                    I::SetFile(n) => format!("sf:{n}"),
                    I::SetColumn(n) => format!("sc:{n}"),
                    I::NegateStatement => "ns".into(),
                    I::SetBasicBlock => "bb".into(),
                    I::ConstAddPc => "cap".into(),
                    I::FixedAddPc(n) => format!("fap:{n}"),
                    I::SetPrologueEnd => "pe".into(),
                    I::SetEpilogueBegin => "eb".into(),
                    I::SetIsa(n) => format!("isa:{n}"),
                    I::EndSequence => "es".into(),
                    I::SetAddress(a) => format!("sa:{a}"),
                    I::SetDiscriminator(n) => format!("sd:{n}"),
                    I::UnknownStandard0(op) => format!("u0:{}", op.0),
                    I::UnknownStandard1(op, a) => format!("u1:{}:{a}", op.0),
                    I::UnknownStandardN(op, a) => format!("unx:{}:{}", op.0, hex(a.slice())),
                    I::UnknownExtended(op, d) => format!("ux:{}:{}", op.0, hex(d.slice())),
                    I::DefineFile(f) => {
                        let path = match f.path_name() {
                            read::AttributeValue::String(r) => hex(r.slice()),
                            _ => "?".into(),
                        };
                        format!("df:str:{};{};{};{};{};~", path, f.directory_index(), f.timestamp(), f.size(), hex(f.md5()))
                    }
                });
            }
            Ok(None) => break,
            Err(x) => {
                out.push(format!("err:{}", rerr(&x)));
                break;
            }
        }
    }
    if out.is_empty() { "-".into() } else { out.join(",") }
}

// ---------------------------------------------------------------------------------------------
// wline-new
// ---------------------------------------------------------------------------------------------

fn new_accepts(lbase: i8, lrange: u8) -> Result<(), String> {
    let p = Par { big: false, fmt64: false, ver: 4, asz: 8, minlen: 1, maxops: 1, stmt: true, lbase, lrange };
    catch_unwind(AssertUnwindSafe(|| {
        let _ = new_program(&p);
    }))
    .map_err(panic_msg)
}

fn op_new(a: &[&str]) -> Option<String> {
    // wline-new <mode> <lbase> <lrange>
    if a.len() != 3 {
        return None;
    }
    let lbase: i8 = a[1].parse().ok()?;
    let lrange: u8 = a[2].parse().ok()?;
    let valid = lbase <= 0 && lbase as i32 + lrange as i32 > 0;
    Some(match new_accepts(lbase, lrange) {
        Ok(()) => {
            if valid { "ok".into() } else { "ok #oracle:new-accepts-invalid".into() }
        }
        Err(m) => {
            if valid { format!("panic {m} #oracle:new-rejects line_base={lbase} line_range={lrange}") } else { format!("panic {m}") }
        }
    })
}

fn op_blk_new(a: &[&str]) -> Option<String> {
    // blk-wline-new <mode>: all 256 x 256 (line_base, line_range) pairs, accept bit
    if a.len() != 1 {
        return None;
    }
    let mut h = DIGEST_INIT;
    for lbase in -128i32..=127 {
        for lrange in 0u32..=255 {
            let ok = new_accepts(lbase as i8, lrange as u8).is_ok();
            h = digest_step(h, ok as u64);
        }
    }
    Some(format!("digest {h}"))
}

// ---------------------------------------------------------------------------------------------
// wline-row
// ---------------------------------------------------------------------------------------------

#[derive(Clone, Copy, PartialEq, Eq, Debug)]
enum Val {
    /// aligned address, op_index inside the bundle, operation pointer does not go backwards,
    /// operation advance representable in 64 bits
    Ok,
    /// outside the writer's documented contract: the oracle is silent
    Invalid,
    /// meaningful rows whose operation advance `address_advance * max_ops + op_index` leaves u64
    BigAdvance,
}

fn row_val(p: &Par, prev_ptr: (u64, u64), off: u64, op: u64) -> Val {
    if p.minlen == 0 || p.maxops == 0 || op >= p.maxops as u64 || off % p.minlen as u64 != 0 || prev_ptr.0 % p.minlen as u64 != 0 {
        return Val::Invalid;
    }
    if (off, op) < prev_ptr {
        return Val::Invalid;
    }
    let adv = ((off - prev_ptr.0) / p.minlen as u64) as u128 * p.maxops as u128 + op as u128;
    if adv > u64::MAX as u128 {
        return Val::BigAdvance;
    }
    Val::Ok
}

fn worst(a: Val, b: Val) -> Val {
    match (a, b) {
        (Val::Invalid, _) | (_, Val::Invalid) => Val::Invalid,
        (Val::BigAdvance, _) | (_, Val::BigAdvance) => Val::BigAdvance,
        _ => Val::Ok,
    }
}

fn expect_row(base: u64, r: &RowReq, file_raw: u64) -> GotRow {
    GotRow { addr: base.wrapping_add(r.off), op: r.op, file: file_raw, line: r.line, col: r.col, disc: r.disc.unwrap_or(0), flags: want_flags(r.flags), isa: r.isa, end: false }
}

/// per-row flags a row must read back with
fn want_flags(f: u64) -> u64 {
    if f & 16 != 0 { f & 1 } else { f & 15 }
}

fn raw_file(ver: u16, index: u64) -> u64 {
    if ver <= 4 { index + 1 } else { index }
}

fn op_row(a: &[&str]) -> Option<String> {
    // wline-row <mode> <ver> <asz> <minlen> <maxops> <stmt> <lbase> <lrange> <prev-row> <next-row>
    if a.len() != 10 {
        return None;
    }
    let p = parse_enc(&a[1..8], false, false)?;
    let prev = parse_row(a[8])?;
    let next = parse_row(a[9])?;
    let unit = p.encoding();
    let res = catch_unwind(AssertUnwindSafe(|| -> Result<(Vec<u8>, Vec<u8>), gimli::write::Error> {
        let mut prog = new_program(&p);
        let mut ls = LineStringTable::default();
        let mut st = StringTable::default();
        set_row(&mut prog, &prev);
        prog.generate_row();
        let w1 = write_program(&p, &prog, unit, &mut ls, &mut st)?;
        set_row(&mut prog, &next);
        prog.generate_row();
        let w2 = write_program(&p, &prog, unit, &mut ls, &mut st)?;
        Ok((w1.line, w2.line))
    }));
    let (b1, b2) = match res {
        Err(pm) => {
            let m = panic_msg(pm);
            // a panic on a meaningful request is a property failure only for huge line numbers
            // (the other panics are the documented ones: decreasing address, bad parameters)
            let big = prev.line >= 1 << 63 || next.line >= 1 << 63;
            let v = worst(row_val(&p, (0, 0), prev.off, prev.op), row_val(&p, (prev.off, prev.op), next.off, next.op));
            if p.readable() && v != Val::Invalid && (big || v == Val::BigAdvance) && m.contains("overflow") {
                return Some(format!("panic {m} #oracle:{} panic", if v == Val::BigAdvance { "bigadvance" } else { "bigline" }));
            }
            return Some(format!("panic {m}"));
        }
        Ok(Err(e)) => return Some(format!("err {}", werr(&e))),
        Ok(Ok(x)) => x,
    };
    let s1 = program_start(&b1, false)?;
    let n1 = b1.len() - s1;
    let s2 = program_start(&b2, false)?;
    let tail = &b2[s2 + n1..];
    // decode just the second row's instructions: a copy of the section with the first row's bytes cut out
    let mut cut = b2[..s2].to_vec();
    cut.extend_from_slice(tail);
    // (the unit_length in `cut` is stale by n1 bytes: fix it)
    let ul = (cut.len() - 4) as u32;
    cut[..4].copy_from_slice(&ul.to_le_bytes());
    let toks = instr_tokens(&p, &cut);
    let mut reply = format!("ok {} {}", hex(tail), toks);
    // direct oracle: read the two rows back
    let v = worst(row_val(&p, (0, 0), prev.off, prev.op), row_val(&p, (prev.off, prev.op), next.off, next.op));
    if p.readable() && v != Val::Invalid && next.off <= p.mask() {
        let nfiles = if p.ver >= 5 { 1 } else { 0 };
        let fr = |r: &RowReq, cur: u64| match r.file {
            Some(k) if k < nfiles => k,
            _ => cur,
        };
        let init_file = if p.ver == 5 { 1 } else { 0 };
        let f1 = fr(&prev, init_file);
        let f2 = fr(&next, f1);
        let want = vec![expect_row(0, &prev, raw_file(p.ver, f1)), expect_row(0, &next, raw_file(p.ver, f2))];
        let big = prev.line >= 1 << 63 || next.line >= 1 << 63;
        let class = if v == Val::BigAdvance { "bigadvance" } else if big { "bigline" } else { "readback" };
        match read_rows(&p, &b2, Some(b"d")) {
            Ok(got) => {
                if got != want {
                    reply.push_str(&format!(" #oracle:{class} want={:?} got={:?}", want, got).replace('\n', " "));
                }
            }
            Err(e) => reply.push_str(&format!(" #oracle:{class} read-error {e}")),
        }
    }
    Some(reply)
}

// ---------------------------------------------------------------------------------------------
// blk-wline: the exhaustive (line advance) x (operation advance) grid in one program
// ---------------------------------------------------------------------------------------------

const GRID_LINE0: u64 = 1_000_000;

fn op_blk(a: &[&str]) -> Option<String> {
    // blk-wline <mode> <ver> <minlen> <maxops> <lbase> <lrange> <la_lo> <la_hi> <oa_lo> <oa_hi>
    if a.len() != 10 {
        return None;
    }
    let p = Par {
        big: false,
        fmt64: false,
        ver: a[1].parse().ok()?,
        asz: 8,
        minlen: a[2].parse().ok()?,
        maxops: a[3].parse().ok()?,
        stmt: true,
        lbase: a[4].parse().ok()?,
        lrange: a[5].parse().ok()?,
    };
    let la_lo: i64 = a[6].parse().ok()?;
    let la_hi: i64 = a[7].parse().ok()?;
    let oa_lo: u64 = a[8].parse().ok()?;
    let oa_hi: u64 = a[9].parse().ok()?;
    if la_hi - la_lo > 2000 || oa_hi.wrapping_sub(oa_lo) > 2000 || la_lo.abs() > 100_000 || la_hi.abs() > 100_000 || oa_hi > 1 << 40 {
        return Some("bad-args".into());
    }
    let mut want: Vec<(u64, u64, u64)> = Vec::new(); // address, op_index, line
    let t0 = std::time::Instant::now();
    let res = catch_unwind(AssertUnwindSafe(|| -> Result<Vec<u8>, gimli::write::Error> {
        let mut prog = new_program(&p);
        let mut ptr: u64 = 0;
        let minlen = p.minlen as u64;
        let maxops = p.maxops as u64;
        let put = |prog: &mut LineProgram, ptr: u64, line: u64, want: &mut Vec<(u64, u64, u64)>| {
            let off = (ptr / maxops) * minlen;
            let op = ptr % maxops;
            let row = prog.row();
            row.address_offset = off;
            row.op_index = op;
            row.line = line;
            prog.generate_row();
            want.push((off, op, line));
        };
        for oa in oa_lo..=oa_hi {
            let mut line = GRID_LINE0;
            put(&mut prog, ptr, line, &mut want);
            for la in la_lo..=la_hi {
                line = (line as i64 + la) as u64;
                ptr += oa;
                put(&mut prog, ptr, line, &mut want);
            }
        }
        let end_off = (ptr / maxops + 1) * minlen;
        if std::env::var_os("C13_TRACE").is_some() {
            eprintln!("blk-wline: generate {:?}", t0.elapsed());
        }
        prog.end_sequence(end_off);
        let mut ls = LineStringTable::default();
        let mut st = StringTable::default();
        Ok(write_program(&p, &prog, p.encoding(), &mut ls, &mut st)?.line)
    }));
    let sec = match res {
        Err(pm) => return Some(format!("panic {}", panic_msg(pm))),
        Ok(Err(e)) => return Some(format!("err {}", werr(&e))),
        Ok(Ok(x)) => x,
    };
    let t1 = t0.elapsed();
    let start = program_start(&sec, false)?;
    let mut h = DIGEST_INIT;
    for b in &sec[start..] {
        h = digest_step(h, *b as u64);
    }
    let mut reply = format!("digest {h}");
    if p.readable() {
        let rr = read_rows(&p, &sec, Some(b"d"));
        if std::env::var_os("C13_TRACE").is_some() {
            eprintln!("blk-wline: generate+write {:?}, digest+read {:?}, {} bytes", t1, t0.elapsed() - t1, sec.len());
        }
        match rr {
            Ok(got) => {
                let ok = got.len() == want.len() + 1
                    && got.iter().zip(want.iter()).all(|(g, w)| !g.end && (g.addr, g.op, g.line) == *w && g.col == 0 && g.disc == 0 && g.isa == 0 && g.flags == 1)
                    && got.last().map_or(false, |g| g.end);
                if !ok {
                    let k = got.iter().zip(want.iter()).position(|(g, w)| (g.addr, g.op, g.line) != *w || g.end);
                    let detail = match k {
                        Some(k) => format!("row {k}: want {:?} got {:?} (previous want {:?})", want[k], got[k], if k > 0 { Some(want[k - 1]) } else { None }),
                        None => format!("row count {} vs {}", got.len(), want.len() + 1),
                    };
                    reply.push_str(&format!(" #oracle:readback {detail}"));
                }
            }
            Err(e) => reply.push_str(&format!(" #oracle:readback read-error {e}")),
        }
    }
    Some(reply)
}

// ---------------------------------------------------------------------------------------------
// wline-prog: a whole program
// ---------------------------------------------------------------------------------------------

#[derive(Clone, Debug, PartialEq, Eq, Hash)]
struct SReq {
    form: char, // s = String, p = StringRef (.debug_str), l = LineStringRef (.debug_line_str)
    val: Vec<u8>,
}

fn parse_sreq(form: &str, val: &str) -> Option<SReq> {
    let c = form.chars().next()?;
    if !matches!(c, 's' | 'p' | 'l') || form.len() != 1 {
        return None;
    }
    Some(SReq { form: c, val: unhex(val)? })
}

fn mk_string(r: &SReq, ls: &mut LineStringTable, st: &mut StringTable) -> LineString {
    match r.form {
        's' => LineString::String(r.val.clone()),
        'p' => LineString::StringRef(st.add(r.val.clone())),
        _ => LineString::LineStringRef(ls.add(r.val.clone())),
    }
}

#[derive(Clone, Debug, PartialEq, Eq)]
struct InfoReq {
    ts: u64,
    size: u64,
    md5: [u8; 16],
    src: Option<SReq>,
}

/// `~` or `<ts>;<size>;<md5hex>;<src>` with src = `~` or `<f>,<hex>`
fn parse_info(t: &str) -> Option<Option<InfoReq>> {
    if t == "~" {
        return Some(None);
    }
    let f: Vec<&str> = t.split(';').collect();
    if f.len() != 4 {
        return None;
    }
    let md5v = unhex(f[2])?;
    if md5v.len() != 16 {
        return None;
    }
    let mut md5 = [0u8; 16];
    md5.copy_from_slice(&md5v);
    let src = if f[3] == "~" {
        None
    } else {
        let (a, b) = f[3].split_once(',')?;
        Some(parse_sreq(a, b)?)
    };
    Some(Some(InfoReq { ts: f[0].parse().ok()?, size: f[1].parse().ok()?, md5, src }))
}

fn mk_info(i: &InfoReq, ls: &mut LineStringTable, st: &mut StringTable) -> FileInfo {
    FileInfo { timestamp: i.ts, size: i.size, md5: i.md5, source: i.src.as_ref().map(|x| mk_string(x, ls, st)) }
}

fn parse_addr(t: &str) -> Option<Address> {
    if t == "sym" {
        Some(Address::Symbol { symbol: 1, addend: 0 })
    } else {
        Some(Address::Constant(t.parse().ok()?))
    }
}

fn resolve<'a>(v: read::AttributeValue<R<'a>>, line_str: &'a [u8], str_: &'a [u8], e: RunTimeEndian) -> Option<Vec<u8>> {
    match v {
        read::AttributeValue::String(r) => Some(r.slice().to_vec()),
        read::AttributeValue::DebugLineStrRef(o) => read::DebugLineStr::new(line_str, e).get_str(o).ok().map(|r| r.slice().to_vec()),
        read::AttributeValue::DebugStrRef(o) => read::DebugStr::new(str_, e).get_str(o).ok().map(|r| r.slice().to_vec()),
        _ => None,
    }
}

fn op_prog(a: &[&str]) -> Option<String> {
    // wline-prog <mode> <e> <fmt> <ver> <asz> <minlen> <maxops> <stmt> <lbase> <lrange> <has> <uver> <uasz> <item>*
    if a.len() < 17 {
        return None;
    }
    let big = match a[1] {
        "le" => false,
        "be" => true,
        _ => return None,
    };
    let fmt64 = match a[2] {
        "32" => false,
        "64" => true,
        _ => return None,
    };
    let p = parse_enc(&a[3..10], big, fmt64)?;
    let has: u8 = a[10].parse().ok()?;
    let uver: u16 = a[11].parse().ok()?;
    let uasz: u8 = a[12].parse().ok()?;
    let items = &a[13..];
    // the four constructor items
    let f0: Vec<&str> = items[0].split(':').collect();
    let f1: Vec<&str> = items[1].split(':').collect();
    let f2: Vec<&str> = items[2].split(':').collect();
    let f3: Vec<&str> = items[3].splitn(2, ':').collect();
    if f0.len() != 3 || f0[0] != "wd" || f1[0] != "sd" || f2.len() != 3 || f2[0] != "sf" || f3.len() != 2 || f3[0] != "si" {
        return None;
    }
    let wd = parse_sreq(f0[1], f0[2])?;
    let sd = if f1.len() == 2 && f1[1] == "~" {
        None
    } else if f1.len() == 3 {
        Some(parse_sreq(f1[1], f1[2])?)
    } else {
        return None;
    };
    let sf = parse_sreq(f2[1], f2[2])?;
    let si = parse_info(f3[1])?;
    enum It {
        D(SReq),
        F(SReq, u64, Option<InfoReq>),
        Bs(Option<Address>),
        Sa(Address),
        Row(RowReq),
        Es(u64),
    }
    let mut its = Vec::new();
    for t in &items[4..] {
        let (k, rest) = t.split_once(':')?;
        its.push(match k {
            "D" => {
                let (f, v) = rest.split_once(':')?;
                It::D(parse_sreq(f, v)?)
            }
            "F" => {
                let f: Vec<&str> = rest.splitn(4, ':').collect();
                if f.len() != 4 {
                    return None;
                }
                It::F(parse_sreq(f[0], f[1])?, f[2].parse().ok()?, parse_info(f[3])?)
            }
            "bs" => It::Bs(if rest == "~" { None } else { Some(parse_addr(rest)?) }),
            "sa" => It::Sa(parse_addr(rest)?),
            "r" => It::Row(parse_row(rest)?),
            "es" => It::Es(rest.parse().ok()?),
            _ => return None,
        });
    }

    // ---- what the caller asks for, tracked independently of gimli (the oracle's expectation)
    let mut val = if p.readable() { Val::Ok } else { Val::Invalid };
    let mut bigline = false;
    let mut want_rows: Vec<GotRow> = Vec::new();
    // (key, id the writer returned) in first-seen order
    let mut dir_keys: Vec<(SReq, u64)> = Vec::new();
    let mut file_keys: Vec<((SReq, u64), u64)> = Vec::new();
    let mut file_info: HashMap<(SReq, u64), InfoReq> = HashMap::new();
    let default_info = InfoReq { ts: 0, size: 0, md5: [0; 16], src: None };
    let mut id_problems: Vec<String> = Vec::new();

    let mut ids: Vec<String> = Vec::new();
    let unit = Encoding { format: p.encoding().format, version: uver, address_size: uasz };
    let res = catch_unwind(AssertUnwindSafe(|| -> Result<Written, gimli::write::Error> {
        let mut ls = LineStringTable::default();
        let mut st = StringTable::default();
        let wds = mk_string(&wd, &mut ls, &mut st);
        let sds = sd.as_ref().map(|x| mk_string(x, &mut ls, &mut st));
        let sfs = mk_string(&sf, &mut ls, &mut st);
        let sis = si.as_ref().map(|x| mk_info(x, &mut ls, &mut st));
        let mut prog = LineProgram::new(p.encoding(), p.line_encoding(), wds, sds, sfs, sis);
        prog.file_has_timestamp = has & 1 != 0;
        prog.file_has_size = has & 2 != 0;
        prog.file_has_md5 = has & 4 != 0;
        prog.file_has_source = has & 8 != 0;
        // expectation for the constructor: directory 0 is the working directory; for version 5
        // file 0 is the source file (in the source directory, whose id the constructor keeps to itself)
        dir_keys.push((wd.clone(), id_index(&prog.default_directory())));
        if p.ver >= 5 {
            if let Some((fid, _, did)) = prog.files().next() {
                let key = (sf.clone(), id_index(&did));
                if let Some(d) = &sd {
                    if !dir_keys.iter().any(|k| k.0 == *d) {
                        dir_keys.push((d.clone(), id_index(&did)));
                    }
                }
                file_keys.push((key.clone(), id_index(&fid)));
                file_info.insert(key, si.clone().unwrap_or(default_info.clone()));
            } else {
                id_problems.push("version 5 program without file 0".into());
            }
        }
        let mut dir_ids: Vec<DirectoryId> = Vec::new();
        let mut base: u64 = 0;
        let mut in_seq = false;
        // (address_offset, op_index) of the previous row relative to `base`
        let mut prev_ptr: (u64, u64) = (0, 0);
        let mut last_addr: u64 = 0;
        let mut cur_file: u64 = if p.ver == 5 { 1 } else { 0 };
        let mut cur_op: u64 = 0;
        let tomb = p.mask().wrapping_sub(1);
        for it in &its {
            match it {
                It::D(d) => {
                    let id = prog.add_directory(mk_string(d, &mut ls, &mut st));
                    let idx = id_index(&id);
                    match dir_keys.iter().find(|k| k.0 == *d) {
                        Some(k) => {
                            if k.1 != idx {
                                id_problems.push(format!("directory {} got id {idx}, earlier {}", hex(&d.val), k.1));
                            }
                        }
                        None => {
                            if dir_keys.iter().any(|k| k.1 == idx) {
                                id_problems.push(format!("new directory {} got the id {idx} of another one", hex(&d.val)));
                            }
                            dir_keys.push((d.clone(), idx));
                        }
                    }
                    dir_ids.push(id);
                    ids.push(format!("d{idx}"));
                }
                It::F(name, dref, info) => {
                    let did = if *dref >= 1 && (*dref as usize) <= dir_ids.len() { dir_ids[*dref as usize - 1] } else { prog.default_directory() };
                    let didx = id_index(&did);
                    let inf = info.as_ref().map(|x| mk_info(x, &mut ls, &mut st));
                    let id = prog.add_file(mk_string(name, &mut ls, &mut st), did, inf);
                    let idx = id_index(&id);
                    let key = (name.clone(), didx);
                    match file_keys.iter().find(|k| k.0 == key) {
                        Some(k) => {
                            if k.1 != idx {
                                id_problems.push(format!("file {}/{didx} got id {idx}, earlier {}", hex(&name.val), k.1));
                            }
                        }
                        None => {
                            if file_keys.iter().any(|k| k.1 == idx) {
                                id_problems.push(format!("new file {}/{didx} got the id {idx} of another one", hex(&name.val)));
                            }
                            file_keys.push((key.clone(), idx));
                        }
                    }
                    match info {
                        Some(i) => {
                            file_info.insert(key, i.clone());
                        }
                        None => {
                            file_info.entry(key).or_insert(default_info.clone());
                        }
                    }
                    ids.push(format!("f{idx}"));
                }
                It::Bs(addr) => {
                    prog.begin_sequence(*addr);
                    in_seq = true;
                    match addr {
                        Some(Address::Constant(c)) => {
                            base = *c;
                            last_addr = base;
                            if *c > p.mask() || *c >= tomb {
                                val = Val::Invalid;
                            }
                        }
                        Some(_) => val = Val::Invalid,
                        None => {}
                    }
                }
                It::Sa(addr) => {
                    prog.set_address(*addr);
                    match addr {
                        Address::Constant(c) => {
                            // the caller's obligation: not below the previous row of this sequence
                            if in_seq && *c < last_addr {
                                val = Val::Invalid;
                            }
                            if *c > p.mask() || *c >= tomb {
                                val = Val::Invalid;
                            }
                            base = *c;
                        }
                        _ => val = Val::Invalid,
                    }
                    in_seq = true;
                    prev_ptr = (0, 0);
                    last_addr = base;
                }
                It::Row(r) => {
                    set_row(&mut prog, r);
                    if let Some(k) = r.file {
                        if (k as usize) < prog.files().count() {
                            cur_file = k;
                        }
                    }
                    val = worst(val, row_val(&p, prev_ptr, r.off, r.op));
                    let addr = base.wrapping_add(r.off);
                    if base.checked_add(r.off).map_or(true, |x| x > p.mask()) {
                        val = Val::Invalid;
                    }
                    if r.line >= 1 << 63 {
                        bigline = true;
                    }
                    prog.generate_row();
                    in_seq = true;
                    prev_ptr = (r.off, r.op);
                    last_addr = addr;
                    cur_op = r.op;
                    want_rows.push(GotRow { addr, op: r.op, file: raw_file(p.ver, cur_file), line: r.line, col: r.col, disc: r.disc.unwrap_or(0), flags: want_flags(r.flags), isa: r.isa, end: false });
                }
                It::Es(off) => {
                    val = worst(val, row_val(&p, prev_ptr, *off, cur_op));
                    if base.checked_add(*off).map_or(true, |x| x > p.mask()) {
                        val = Val::Invalid;
                    }
                    prog.end_sequence(*off);
                    want_rows.push(GotRow { addr: base.wrapping_add(*off), op: cur_op, file: 0, line: 0, col: 0, disc: 0, flags: 0, isa: 0, end: true });
                    in_seq = false;
                    base = 0;
                    prev_ptr = (0, 0);
                    last_addr = 0;
                    cur_file = if p.ver == 5 { 1 } else { 0 };
                    cur_op = 0;
                }
            }
        }
        write_program(&p, &prog, unit, &mut ls, &mut st)
    }));
    let w = match res {
        Err(pm) => {
            let m = panic_msg(pm);
            if val != Val::Invalid && (bigline || val == Val::BigAdvance) && m.contains("overflow") {
                return Some(format!("panic {m} #oracle:{} panic", if val == Val::BigAdvance { "bigadvance" } else { "bigline" }));
            }
            return Some(format!("panic {m}"));
        }
        Ok(Err(e)) => return Some(format!("err {}", werr(&e))),
        Ok(Ok(w)) => w,
    };
    let mut reply = format!("ok {} {} {} {}", hex(&w.line), hex(&w.line_str), hex(&w.str_), if ids.is_empty() { "-".into() } else { ids.join(",") });
    if !id_problems.is_empty() {
        reply.push_str(&format!(" #oracle:file-ids {}", id_problems.join("; ")));
        return Some(reply);
    }
    if std::env::var_os("C13_TRACE").is_some() {
        eprintln!("wline-prog oracle: {:?} rows={} files={} dirs={}", val, want_rows.len(), file_keys.len(), dir_keys.len());
    }
    if val == Val::Invalid {
        return Some(reply);
    }
    // ---- read back (direct oracle)
    let class = if val == Val::BigAdvance {
        "bigadvance"
    } else if bigline {
        "bigline"
    } else {
        "readback"
    };
    let e = p.endian();
    let mut problems: Vec<String> = Vec::new();
    let comp_dir: Option<&[u8]> = Some(&wd.val);
    match read_rows(&p, &w.line, comp_dir) {
        Ok(got) => {
            if got.len() != want_rows.len() {
                problems.push(format!("row count {} want {}", got.len(), want_rows.len()));
            }
            for (k, (g, wr)) in got.iter().zip(want_rows.iter()).enumerate() {
                let same = if wr.end { g.end && g.addr == wr.addr && g.op == wr.op } else { g == wr };
                if !same {
                    problems.push(format!("row {k}: want {:?} got {:?}", wr, g));
                    break;
                }
            }
        }
        Err(x) => problems.push(format!("read-error {x}")),
    }
    // header + tables
    let dl = read::DebugLine::new(&w.line, e);
    match dl.program(DebugLineOffset(0), p.asz, comp_dir.map(|d| EndianSlice::new(d, e)), None) {
        Ok(prog) => {
            let h = prog.header();
            let le = h.line_encoding();
            if h.version() != p.ver
                || h.address_size() != p.asz
                || le.minimum_instruction_length != p.minlen
                || le.maximum_operations_per_instruction != p.maxops
                || le.default_is_stmt != p.stmt
                || le.line_base != p.lbase
                || le.line_range != p.lrange
                || h.format() != p.encoding().format
            {
                problems.push(format!("header parameters differ: {:?} {:?}", h.encoding(), le));
            }
            // directories: the id a directory got reads back as that directory
            for (d, id) in dir_keys.iter() {
                let got = h.directory(*id).and_then(|v| resolve(v, &w.line_str, &w.str_, e));
                if got.as_deref() != Some(&d.val[..]) {
                    problems.push(format!("directory {id}: want {} got {:?}", hex(&d.val), got.map(|x| hex(&x))));
                }
            }
            // files: the id a file got (made raw) reads back as that file
            for (key, id) in file_keys.iter() {
                let raw = raw_file(p.ver, *id);
                let info = file_info.get(key).cloned().unwrap_or(default_info.clone());
                match h.file(raw) {
                    None => problems.push(format!("file {id} (raw {raw}) missing")),
                    Some(f) => {
                        let name = resolve(f.path_name(), &w.line_str, &w.str_, e);
                        if name.as_deref() != Some(&key.0.val[..]) {
                            problems.push(format!("file {id}: name want {} got {:?}", hex(&key.0.val), name.map(|x| hex(&x))));
                        }
                        if f.directory_index() != key.1 {
                            problems.push(format!("file {id}: directory want {} got {}", key.1, f.directory_index()));
                        }
                        let v5 = p.ver >= 5;
                        if (!v5 || has & 1 != 0) && f.timestamp() != info.ts {
                            problems.push(format!("file {id}: timestamp want {} got {}", info.ts, f.timestamp()));
                        }
                        if (!v5 || has & 2 != 0) && f.size() != info.size {
                            problems.push(format!("file {id}: size want {} got {}", info.size, f.size()));
                        }
                        if v5 && has & 4 != 0 && f.md5() != &info.md5 {
                            problems.push(format!("file {id}: md5 want {} got {}", hex(&info.md5), hex(f.md5())));
                        }
                        if v5 && has & 8 != 0 {
                            let src = f.source().and_then(|v| resolve(v, &w.line_str, &w.str_, e));
                            let wants = info.src.as_ref().map(|x| x.val.clone()).unwrap_or_default();
                            if src.as_deref() != Some(&wants[..]) {
                                problems.push(format!("file {id}: source want {} got {:?}", hex(&wants), src.map(|x| hex(&x))));
                            }
                        }
                    }
                }
            }
        }
        Err(x) => problems.push(format!("header read-error {:?}", x)),
    }
    if !problems.is_empty() {
        reply.push_str(&format!(" #oracle:{class} {}", problems.join("; ").replace('\n', " ")));
    }
    Some(reply)
}

pub fn handle(op: &str, a: &[&str]) -> Option<String> {
    match op {
        "wline-new" => op_new(a),
        "blk-wline-new" => op_blk_new(a),
        "wline-row" => op_row(a),
        "blk-wline" => op_blk(a),
        "wline-prog" => op_prog(a),
        _ => None,
    }
}

// ---------------------------------------------------------------------------------------------
// generator
// ---------------------------------------------------------------------------------------------

fn row_tok(r: &RowReq) -> String {
    format!(
        "{},{},{},{},{},{},{},{}",
        r.off,
        r.op,
        r.file.map(|x| x.to_string()).unwrap_or("~".into()),
        r.line,
        r.col,
        r.disc.map(|x| x.to_string()).unwrap_or("~".into()),
        r.flags,
        r.isa
    )
}

/// (line_base, line_range) pairs that `LineProgram::new` accepts: line_base -128..0,
/// line_range 1..255, line_base + line_range > 0
fn gen_base_range(rng: &mut Rng) -> (i64, u64) {
    match rng.below(14) {
        0 => (-5, 14),
        1 => (-3, 12),
        2 => (0, 1),
        3 => (-1, 2),
        4 => (-10, 242), // gcc's own
        5 => (-128, 255),
        6 => (0, rng.range(1, 255)),
        7 => (-(rng.range(0, 128) as i64), 255),
        8 => {
            // line_base + line_range = 1: only the special opcodes for a line advance of 0
            let lr = rng.range(1, 129);
            (1 - lr as i64, lr)
        }
        9 | 10 => {
            // large line_range: special_base + special_line can exceed 255
            let lr = rng.range(200, 255);
            (-(rng.below(lr.min(129)) as i64), lr)
        }
        _ => {
            let lr = rng.range(1, 255);
            let lb = -(rng.below(lr.min(129)) as i64);
            (lb, lr)
        }
    }
}

fn small_or_boundary(rng: &mut Rng, small: u64) -> u64 {
    match rng.below(10) {
        0 => rng.boundary_u64(),
        1 => rng.below(1 << 20),
        _ => rng.below(small),
    }
}

fn gen_str(rng: &mut Rng, pool: &[&str], form: char) -> String {
    let v = if rng.chance(4, 5) {
        pool[rng.below(pool.len() as u64) as usize].as_bytes().to_vec()
    } else {
        let n = rng.range(1, 6) as usize;
        (0..n).map(|_| rng.range(1, 255) as u8).collect()
    };
    format!("{form}:{}", hex(&v))
}

fn gen_info(rng: &mut Rng, srcform: char) -> String {
    if rng.chance(1, 3) {
        return "~".into();
    }
    let ts = small_or_boundary(rng, 100000);
    let size = small_or_boundary(rng, 100000);
    let md5 = rng.bytes(16);
    let src = if rng.chance(1, 2) { "~".to_string() } else { format!("{srcform},{}", hex(&rng.bytes_below(6).iter().map(|b| b | 1).collect::<Vec<u8>>())) };
    format!("{ts};{size};{};{src}", hex(&md5))
}

fn gen_prog(rng: &mut Rng, malformed: bool) -> String {
    let ver = *rng.pick(&[2u64, 3, 4, 4, 5, 5, 5]);
    let asz = if malformed && rng.chance(1, 4) { *rng.pick(&[0u64, 3, 16]) } else { *rng.pick(&[1u64, 2, 4, 4, 8, 8, 8]) };
    let big = rng.chance(1, 3);
    let fmt64 = rng.chance(1, 3);
    let (lb, lr) = if malformed && rng.chance(1, 3) { (rng.range(0, 255) as i64 - 128, rng.below(256)) } else { gen_base_range(rng) };
    let maxops = if ver >= 4 { *rng.pick(&[1u64, 1, 2, 3, 4, 255]) } else if malformed && rng.chance(1, 3) { 2 } else { 1 };
    let minlen = *rng.pick(&[1u64, 1, 2, 4, 7, 255]);
    let minlen = if malformed && rng.chance(1, 6) { 0 } else { minlen };
    let stmt = rng.below(2);
    let has = if ver >= 5 { rng.below(16) } else { rng.below(16) * rng.below(2) };
    let (uver, uasz) = if malformed && rng.chance(1, 3) { (rng.range(2, 5), *rng.pick(&[4u64, 8])) } else { (ver.max(rng.range(2, 5)), asz) };
    // string forms: one form for directories, one for files, one for sources (mixed only when malformed)
    let forms: &[char] = if ver >= 5 { &['s', 'l', 'p'] } else if malformed { &['s', 's', 'l', 'p'] } else { &['s'] };
    let dform = *rng.pick(forms);
    let fform = *rng.pick(forms);
    let sform = *rng.pick(forms);
    let pick_form = |rng: &mut Rng, f: char| if malformed && rng.chance(1, 8) { *rng.pick(&['s', 'l', 'p']) } else { f };
    const DIRS: &[&str] = &["/w", "src", "inc", "/usr/include", "a"];
    const FILES: &[&str] = &["main.c", "a.h", "b.h", "a", "x.rs"];
    let mask: u64 = match asz {
        1 => 0xff,
        2 => 0xffff,
        4 => 0xffff_ffff,
        _ => u64::MAX,
    };
    let mut t: Vec<String> = Vec::new();
    t.push(format!(
        "wline-prog @MODE@ {} {} {ver} {asz} {minlen} {maxops} {stmt} {lb} {lr} {has} {uver} {uasz}",
        if big { "be" } else { "le" },
        if fmt64 { 64 } else { 32 }
    ));
    let f = pick_form(rng, dform);
    t.push(format!("wd:{}", gen_str(rng, DIRS, f)));
    if rng.chance(1, 2) {
        let f = pick_form(rng, dform);
        t.push(format!("sd:{}", gen_str(rng, DIRS, f)));
    } else {
        t.push("sd:~".into());
    }
    let f = pick_form(rng, fform);
    t.push(format!("sf:{}", gen_str(rng, FILES, f)));
    t.push(format!("si:{}", gen_info(rng, sform)));
    let ndirs = rng.below(4);
    for _ in 0..ndirs {
        let f = pick_form(rng, dform);
        t.push(format!("D:{}", gen_str(rng, DIRS, f)));
    }
    let nfiles = rng.range(if ver <= 4 { 1 } else { 0 }, 5);
    for _ in 0..nfiles {
        let f = pick_form(rng, fform);
        let sf = pick_form(rng, sform);
        t.push(format!("F:{}:{}:{}", gen_str(rng, FILES, f), rng.below(ndirs + 2), gen_info(rng, sf)));
    }
    let total_files = nfiles + if ver >= 5 { 1 } else { 0 };
    // sequences
    let nseq = rng.range(1, 3);
    let mmo = if ver >= 4 { maxops.max(1) } else { 1 };
    let mil = minlen.max(1);
    for _ in 0..nseq {
        let room = (mask / 4).max(1);
        let mut base = rng.below(room);
        match rng.below(4) {
            0 => {
                t.push("bs:~".into());
                base = 0;
            }
            1 => t.push(format!("bs:{base}")),
            2 => t.push(format!("sa:{base}")),
            _ => base = 0,
        }
        if malformed && rng.chance(1, 10) {
            t.push("sa:sym".into());
        }
        let nrows = rng.below(7);
        let mut ptr: u64 = 0; // operation pointer relative to base
        let mut line: u64 = rng.range(0, 50);
        let mut col = 0u64;
        let mut isa = 0u64;
        let mut file: Option<u64> = None;
        let mut stmtf = stmt;
        let budget = ((mask / 4) / mil).max(1); // how far addresses may go (in instructions)
        for _ in 0..nrows {
            // advance the operation pointer
            let adv = match rng.below(8) {
                0 => 0,
                1 => rng.below(20),
                2 => rng.below(300),
                3 => rng.below(3000),
                _ => rng.below(6),
            };
            if (ptr + adv) / mmo < budget {
                ptr += adv;
            }
            if malformed && rng.chance(1, 30) {
                ptr = ptr.saturating_sub(rng.below(3));
            }
            // occasionally re-base with set_address
            if rng.chance(1, 10) {
                let cur = base + (ptr / mmo) * mil;
                let nb = cur + rng.below(64);
                if nb < mask / 2 {
                    t.push(format!("sa:{nb}"));
                    base = nb;
                    ptr = 0;
                }
            }
            line = match rng.below(10) {
                0 => line,
                1 => line.wrapping_add(rng.below(400)),
                2 => line.saturating_sub(rng.below(400)),
                3 => rng.below(1 << 32),
                4 if malformed => rng.boundary_u64(),
                _ => (line.min(1 << 62) as i64 + rng.below(21) as i64 - 8).max(0) as u64,
            };
            if rng.chance(1, 3) {
                col = small_or_boundary(rng, 200);
            }
            if rng.chance(1, 8) {
                isa = small_or_boundary(rng, 5);
            }
            if rng.chance(1, 3) && total_files > 0 {
                file = Some(rng.below(total_files + if malformed { 1 } else { 0 }));
            }
            if rng.chance(1, 5) {
                stmtf ^= 1;
            }
            let disc = match rng.below(8) {
                0 | 1 => Some(small_or_boundary(rng, 50)),
                2 | 3 => None,
                _ => Some(0),
            };
            let flags = stmtf | if rng.chance(1, 5) { 2 } else { 0 } | if rng.chance(1, 6) { 4 } else { 0 } | if rng.chance(1, 6) { 8 } else { 0 } | if rng.chance(1, 4) { 16 } else { 0 };
            let mut off = (ptr / mmo) * mil;
            if malformed && rng.chance(1, 30) {
                off += 1;
            }
            let op = if malformed && rng.chance(1, 30) { mmo } else { ptr % mmo };
            t.push(format!("r:{}", row_tok(&RowReq { off, op, file, line, col, disc, flags, isa })));
        }
        if !(malformed && rng.chance(1, 6)) {
            let adv = rng.below(10);
            let off = (ptr / mmo + adv) * mil;
            t.push(format!("es:{off}"));
        }
    }
    t.join(" ")
}

fn enc_tok(ver: u64, asz: u64, minlen: u64, maxops: u64, stmt: u64, lb: i64, lr: u64) -> String {
    format!("{ver} {asz} {minlen} {maxops} {stmt} {lb} {lr}")
}

pub fn gen(ctx: &Ctx, emit: &mut dyn FnMut(String)) {
    let mut rng = ctx.rng(13);
    // 1. `LineProgram::new`: every (line_base, line_range) pair as one block, and line by line for
    //    a few line_base values (the oracle speaks on single requests)
    emit("blk-wline-new @MODE@".into());
    for lb in [0i64, -1, -5, -10, -128] {
        for lr in 0..=255u64 {
            if ctx.tier == Tier::Thorough || lr % 8 == 2 || lr < 3 || (126..=130).contains(&lr) || lr > 252 || lr as i64 + lb == 128 {
                emit(format!("wline-new @MODE@ {lb} {lr}"));
            }
        }
    }
    // 2. the exhaustive grid (line advance -300..300) x (operation advance 0..600), one program per
    //    LineEncoding tuple
    let mut tuples: Vec<(u64, u64, i64, u64)> = Vec::new(); // minlen, maxops, line_base, line_range
    for &(lb, lr) in &[(-5i64, 14u64), (-3, 12), (0, 1), (-1, 2), (-126, 127), (0, 127), (-10, 100), (-63, 64)] {
        tuples.push((1, 1, lb, lr));
    }
    for &(mil, mo) in &[(2u64, 1u64), (4, 1), (1, 2), (1, 4), (2, 2), (4, 4), (2, 4), (4, 2)] {
        tuples.push((mil, mo, -5, 14));
    }
    tuples.push((4, 4, -1, 3));
    tuples.push((2, 2, -100, 127));
    tuples.push((1, 1, -10, 242));
    tuples.push((2, 2, -128, 255));
    tuples.push((1, 4, -3, 250));
    let extra = ctx.n(2, 40);
    for _ in 0..extra {
        let (lb, lr) = gen_base_range(&mut rng);
        tuples.push((*rng.pick(&[1u64, 2, 4]), *rng.pick(&[1u64, 2, 4]), lb, lr));
    }
    // quick tier: 4 tuples with the whole grid, the others with operation advances 0..40 (all the
    // special / const_add_pc boundaries of these encodings lie below 40); thorough: all whole
    let full_quick = [0usize, 3, 13, 16];
    for (i, (mil, mo, lb, lr)) in tuples.iter().enumerate() {
        let oa_hi = if ctx.tier == Tier::Thorough || full_quick.contains(&i) { 600 } else { 40 };
        emit(format!("blk-wline @MODE@ {} {mil} {mo} {lb} {lr} -300 300 0 {oa_hi}", if rng.chance(1, 2) { 4 } else { 5 }));
    }
    // 2b. smaller grids for every line_range 1..255 (x line_base values incl. the extremes)
    for lr in 1..=255u64 {
        let lo = -((lr - 1).min(128) as i64); // smallest line_base with line_base + line_range > 0
        let lbs: Vec<i64> = if ctx.tier == Tier::Thorough {
            vec![0, lo, -(rng.below(lr.min(129)) as i64)]
        } else {
            vec![-(rng.below(lr.min(129)) as i64), if lr % 2 == 0 { 0 } else { lo }]
        };
        for lb in lbs {
            let mil = *rng.pick(&[1u64, 2, 4]);
            let mo = *rng.pick(&[1u64, 2, 4]);
            // wide enough to cross both ends of the special-opcode window of this encoding
            let span = ctx.n(40, 150) as i64;
            let (la_lo, la_hi) = if lr <= 60 || ctx.tier == Tier::Thorough { (-span.max(lr as i64 + 6), span.max(lr as i64 + 6)) } else { (lb - 6, lb + lr as i64 + 6) };
            let oa_hi = ctx.n(2 * 260 / lr as usize + 8, (4 * 260 / lr as usize + 40).min(600));
            emit(format!("blk-wline @MODE@ 4 {mil} {mo} {lb} {lr} {la_lo} {la_hi} 0 {oa_hi}"));
        }
    }
    // 3. single (previous row, next row) pairs, all row fields varied
    let n = ctx.n(6000, 120000);
    for i in 0..n {
        let kind = i % 10; // 0..6 structured, 7..8 boundary, 9 malformed
        let ver = *rng.pick(&[2u64, 3, 4, 5]);
        let (lb, lr) = if kind == 9 && rng.chance(1, 2) { (rng.range(0, 255) as i64 - 128, rng.below(256)) } else { gen_base_range(&mut rng) };
        let maxops = if ver >= 4 { *rng.pick(&[1u64, 1, 2, 4, 3, 255]) } else { 1 };
        let minlen = if kind == 9 && rng.chance(1, 8) { 0 } else { *rng.pick(&[1u64, 1, 2, 4, 9, 255]) };
        let stmt = rng.below(2);
        let nfiles = if ver >= 5 { 1 } else { 0 };
        let mkrow = |rng: &mut Rng, prev: Option<&RowReq>| -> RowReq {
            let (poff, pop, pline) = prev.map(|r| (r.off, r.op, r.line)).unwrap_or((0, 0, 1));
            let pptr = (poff / minlen.max(1)).saturating_mul(maxops).saturating_add(pop);
            let adv = match kind {
                7 | 8 => match rng.below(4) {
                    0 => rng.boundary_u64() >> rng.below(8),
                    1 => (242 / lr.max(1)).wrapping_add(rng.below(5)).wrapping_sub(2).wrapping_mul(rng.range(1, 2)) % 1000,
                    _ => rng.below(700),
                },
                _ => match rng.below(4) {
                    0 => 0,
                    1 => rng.below(700),
                    _ => rng.below(2 * 255 / lr.max(1) + 3),
                },
            };
            let ptr = pptr.saturating_add(adv).min(u64::MAX / 512);
            let line = match kind {
                7 | 8 => match rng.below(4) {
                    0 => rng.boundary_u64(),
                    1 => (pline as i64).wrapping_add(lb + rng.below(lr + 2) as i64 - 1).max(0) as u64,
                    _ => pline.min(1 << 62).wrapping_add(rng.below(600)).saturating_sub(300),
                },
                _ => match rng.below(3) {
                    0 => pline,
                    1 => (pline as i64 + lb + rng.below(lr + 1) as i64).max(0) as u64,
                    _ => (pline as i64 + rng.below(601) as i64 - 300).max(0) as u64,
                },
            };
            let mut r = RowReq {
                off: (ptr / maxops).saturating_mul(minlen.max(1)),
                op: ptr % maxops,
                file: if rng.chance(1, 3) { Some(rng.below(nfiles + 1)) } else { None },
                line,
                col: if rng.chance(1, 2) { 0 } else { small_or_boundary(rng, 100) },
                disc: match rng.below(6) {
                    0 | 1 => Some(small_or_boundary(rng, 100)),
                    2 => None,
                    _ => Some(0),
                },
                flags: rng.below(16) | if rng.chance(1, 5) { 16 } else { 0 },
                isa: if rng.chance(3, 4) { 0 } else { small_or_boundary(rng, 10) },
            };
            if kind == 9 {
                match rng.below(6) {
                    0 => r.off = r.off.wrapping_add(1),
                    1 => r.op = maxops + rng.below(3),
                    2 => r.off = poff.saturating_sub(rng.range(1, 4) * minlen.max(1)),
                    3 => r.op = pop.saturating_sub(1),
                    4 => r.off = rng.boundary_u64(),
                    _ => {}
                }
            }
            r
        };
        let prev = mkrow(&mut rng, None);
        let next = mkrow(&mut rng, Some(&prev));
        emit(format!("wline-row @MODE@ {} {} {}", enc_tok(ver, 8, minlen, maxops, stmt, lb, lr), row_tok(&prev), row_tok(&next)));
    }
    // 4. whole programs
    let n = ctx.n(5000, 100000);
    for i in 0..n {
        emit(gen_prog(&mut rng, i % 10 == 9));
    }
}
