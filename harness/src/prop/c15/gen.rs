// Case generator for C15 (included into c15.rs): request lines only, every choice from `ctx.rng`.

const SIMPLE_OPS: &[u8] = &[
    0x13, 0x16, 0x17, 0x97, 0x9b, 0x9c, 0x19, 0x1a, 0x1b, 0x1c, 0x1d, 0x1e, 0x1f, 0x20, 0x21, 0x22, 0x24, 0x25, 0x26, 0x27, 0x2c, 0x2a, 0x29,
    0x2d, 0x2b, 0x2e, 0x96, 0x9f, 0xf0,
];
/// arithmetic / stack / comparison subset that evaluates without outside help
const ARITH_OPS: &[u8] = &[0x13, 0x16, 0x17, 0x19, 0x1a, 0x1b, 0x1c, 0x1d, 0x1e, 0x1f, 0x20, 0x21, 0x22, 0x24, 0x25, 0x26, 0x27, 0x2c, 0x2a, 0x29, 0x2d, 0x2b, 0x2e, 0x96];

struct GUnits {
    text: String,
    n: usize,
    /// indices usable without error for ULEB references in an attribute (known at the size pass)
    early: Vec<usize>,
    /// indices that get an offset at all
    live: Vec<usize>,
    pre: bool,
    post: bool,
}

fn g_name_len(r: &mut Rng) -> usize {
    match r.below(12) {
        0..=4 => r.range(4, 9) as usize,
        5 | 6 => r.range(90, 130) as usize,
        7 => r.range(16_200, 16_400) as usize,
        8 => *r.pick(&[4usize, 5, 6, 7]),
        _ => r.range(4, 40) as usize,
    }
}

fn g_units(r: &mut Rng) -> GUnits {
    let others = r.below(5) as usize;
    let n = others + 1;
    let rpos = r.below(n as u64) as usize;
    let mut parts = Vec::new();
    let mut kinds = Vec::new();
    for i in 0..n {
        if i == rpos {
            let k = if r.chance(1, 5) { 'B' } else { 'R' };
            kinds.push(k);
            parts.push(format!("{k}{}", 12 + g_name_len(r)));
        } else {
            let k = *r.pick(&['b', 'b', 'v', 'v', 'v', 'd']);
            kinds.push(k);
            parts.push(format!("{k}{}", g_name_len(r)));
        }
    }
    let pre = r.chance(1, 2);
    let post = r.chance(1, 2);
    let aux = |r: &mut Rng, on: bool| if on { g_name_len(r).to_string() } else { "-".to_string() };
    let text = format!("{}/{}/{}", aux(r, pre), aux(r, post), parts.join(","));
    // written order: bases first
    let is_base = |k: char| k == 'b' || k == 'B';
    let mut order: Vec<usize> = (0..n).filter(|i| kinds[*i] != 'd' && is_base(kinds[*i])).collect();
    order.extend((0..n).filter(|i| kinds[*i] != 'd' && !is_base(kinds[*i])));
    let rp = order.iter().position(|i| *i == rpos).unwrap();
    GUnits { text, n, early: order[..=rp].to_vec(), live: order, pre, post }
}

fn g_u64(r: &mut Rng) -> u64 {
    match r.below(10) {
        0..=2 => *r.pick(&[0u64, 1, 2, 30, 31, 32, 33, 63, 64, 127, 128, 129, 255, 256, 16383, 16384, 65535, 65536]),
        3..=5 => r.boundary_u64(),
        6 => r.below(64),
        _ => r.next() >> r.below(64),
    }
}

fn g_i64(r: &mut Rng) -> i64 {
    match r.below(10) {
        0..=2 => *r.pick(&[0i64, 1, -1, 2, -2, 63, 64, -64, -65, 127, 128, -128, -129, 8191, 8192, -8192, -8193, i64::MAX, i64::MIN, i64::MIN + 1]),
        3..=5 => r.boundary_i64(),
        6 => r.below(200) as i64 - 100,
        _ => (r.next() as i64) >> r.below(64),
    }
}

fn g_reg(r: &mut Rng) -> u16 {
    match r.below(6) {
        0..=2 => *r.pick(&[0u16, 1, 15, 30, 31, 32, 33, 127, 128, 16383, 16384, 65535]),
        3 => r.below(40) as u16,
        _ => r.next() as u16,
    }
}

fn g_bytes(r: &mut Rng) -> String {
    let n = match r.below(10) {
        0 => 0,
        1 => *r.pick(&[127usize, 128, 129, 255]),
        _ => r.below(12) as usize,
    };
    hex(&r.bytes(n))
}

#[derive(Clone, Copy, PartialEq)]
enum RefPolicy {
    /// only references that must succeed here
    Valid,
    /// any entry (forward, deleted, …): errors expected
    Any,
    /// no references at all (CFI)
    None,
}

struct GCtx<'a> {
    u: &'a GUnits,
    place: Place,
    policy: RefPolicy,
}

impl<'a> GCtx<'a> {
    /// an entry for a ULEB reference
    fn eref_uleb(&self, r: &mut Rng) -> usize {
        match self.policy {
            RefPolicy::Valid | RefPolicy::None => {
                let pool = if self.place == Place::Attr { &self.u.early } else { &self.u.live };
                *r.pick(pool)
            }
            RefPolicy::Any => r.below(self.u.n as u64) as usize,
        }
    }
    /// an entry for a 4-byte unit reference (resolved in the write pass)
    fn eref_fixed(&self, r: &mut Rng) -> usize {
        match self.policy {
            RefPolicy::Valid | RefPolicy::None => *r.pick(&self.u.live),
            RefPolicy::Any => r.below(self.u.n as u64) as usize,
        }
    }
    fn dref(&self, r: &mut Rng) -> String {
        let mut pool: Vec<String> = Vec::new();
        if self.policy == RefPolicy::Any {
            pool.extend((0..self.u.n).map(|i| format!("m{i}")));
            if r.chance(1, 8) {
                return format!("s{}", r.below(5));
            }
        } else {
            pool.extend(self.u.live.iter().map(|i| format!("m{i}")));
        }
        if self.u.pre {
            pool.push("p".into());
        }
        if self.u.post {
            pool.push("n".into());
        }
        r.pick(&pool).clone()
    }
}

/// one builder call (not a branch); `len_hint` bounds nesting
fn g_op(r: &mut Rng, c: &GCtx, depth: usize, out: &mut Vec<String>) {
    let refs = c.policy != RefPolicy::None;
    loop {
        match r.below(34) {
            0..=3 => out.push(format!("op:{}", r.pick(SIMPLE_OPS))),
            4 => {
                let asz_fit = *r.pick(&[0u64, 1, 0x7f, 0xff]);
                out.push(format!("addr:{}", if r.chance(3, 4) { asz_fit } else { g_u64(r) }))
            }
            5 | 6 => out.push(format!("constu:{}", g_u64(r))),
            7 => out.push(format!("consts:{}", g_i64(r))),
            8 if refs => out.push(format!("const_type:{}:{}", c.eref_uleb(r), g_bytes(r))),
            9 => out.push(format!("fbreg:{}", g_i64(r))),
            10 | 11 => out.push(format!("breg:{}:{}", g_reg(r), g_i64(r))),
            12 if refs => out.push(format!("regval_type:{}:{}", g_reg(r), c.eref_uleb(r))),
            13 | 14 => out.push(format!("pick:{}", r.pick(&[0u8, 1, 2, 3, 255, 7]))),
            15 => out.push((*r.pick(&["deref", "xderef"])).to_string()),
            16 => out.push(format!("{}:{}", r.pick(&["deref_size", "xderef_size"]), r.pick(&[0u8, 1, 2, 4, 8, 255]))),
            17 if refs => out.push(format!("{}:{}:{}", r.pick(&["deref_type", "xderef_type"]), r.pick(&[0u8, 1, 4, 8, 255]), c.eref_uleb(r))),
            18 => out.push(format!("plus_uconst:{}", g_u64(r))),
            19 if refs => out.push(format!("call:{}", c.eref_fixed(r))),
            20 if refs => out.push(format!("call_ref:{}", c.dref(r))),
            21 if refs => out.push(format!("variable_value:{}", c.dref(r))),
            22 => out.push(format!("{}:{}", r.pick(&["convert", "reinterpret"]), if !refs || r.chance(1, 3) { "-".to_string() } else { c.eref_uleb(r).to_string() })),
            23 | 24 => out.push(format!("reg:{}", g_reg(r))),
            25 => out.push(format!("implicit_value:{}", g_bytes(r))),
            26 if refs => out.push(format!("implicit_pointer:{}:{}", c.dref(r), g_i64(r))),
            27 => {
                // sizes of 2^61 bytes and more are refused by the writer (ValueTooLarge, the fix for C15-1)
                let v = g_u64(r);
                out.push(format!("piece:{}", if v >= 1 << 61 && !r.chance(1, 4) { v >> 4 } else { v }))
            }
            28 => out.push(format!("bit_piece:{}:{}", g_u64(r), g_u64(r))),
            29 if refs => out.push(format!("parameter_ref:{}", c.eref_fixed(r))),
            30 => out.push(format!("{}:{}", r.pick(&["wasm_local", "wasm_global", "wasm_stack"]), *r.pick(&[0u32, 1, 127, 128, 16384, u32::MAX]))),
            31 | 32 if depth < 3 => {
                let bn = r.below(5) as usize;
                let body = g_prog(r, c, depth + 1, bn);
                let k = count_top(&body);
                out.push(format!("entry_value:{k}"));
                out.extend(body);
            }
            _ => continue,
        }
        return;
    }
}

/// number of top-level operations in a token list
fn count_top(toks: &[String]) -> usize {
    fn skip(toks: &[String], i: &mut usize) {
        let t = &toks[*i];
        *i += 1;
        if let Some(k) = t.strip_prefix("entry_value:") {
            for _ in 0..k.parse::<usize>().unwrap_or(0) {
                skip(toks, i);
            }
        }
    }
    let mut i = 0;
    let mut n = 0;
    while i < toks.len() {
        skip(toks, &mut i);
        n += 1;
    }
    n
}

/// a (sub)expression of `n` operations, a third of which may be branches to any valid target
fn g_prog(r: &mut Rng, c: &GCtx, depth: usize, n: usize) -> Vec<String> {
    let mut out: Vec<String> = Vec::new();
    for k in 0..n {
        if n > 1 && r.chance(1, 4) {
            let mut t = r.below(n as u64 + 1) as usize;
            if t == k {
                t = if k + 1 <= n { k + 1 } else { 0 };
            }
            out.push(format!("{}:{}", r.pick(&["skip", "bra"]), t));
        } else {
            g_op(r, c, depth, &mut out);
        }
    }
    out
}

/// a program in the self-contained fragment: constants, stack/arithmetic/compare, breg/fbreg/deref, branches
fn g_arith(r: &mut Rng, n: usize) -> Vec<String> {
    let mut out = Vec::new();
    for k in 0..n {
        match r.below(12) {
            0..=3 => out.push(format!("constu:{}", if r.chance(2, 3) { r.below(70) } else { g_u64(r) })),
            4 => out.push(format!("consts:{}", if r.chance(1, 2) { r.below(9) as i64 - 4 } else { g_i64(r) })),
            5 => out.push(format!("pick:{}", r.below(3))),
            6 => out.push(format!("plus_uconst:{}", g_u64(r))),
            7 if n > 1 => {
                let mut t = r.below(n as u64 + 1) as usize;
                if t == k {
                    t = k + 1;
                }
                out.push(format!("{}:{}", r.pick(&["skip", "bra", "bra"]), t));
            }
            8 if r.chance(1, 2) => out.push(format!("breg:{}:{}", g_reg(r), r.below(100) as i64 - 50)),
            8 => out.push((*r.pick(&["deref", "fbreg:8", "op:156"])).to_string()),
            _ => out.push(format!("op:{}", r.pick(ARITH_OPS))),
        }
    }
    if r.chance(1, 3) {
        out.push("op:159".into()); // stack_value
    }
    out
}

struct GEnc {
    e: &'static str,
    asz: u8,
    fmt: &'static str,
    ver: u16,
}

fn g_enc(r: &mut Rng, place: Place) -> GEnc {
    let ver = match place {
        Place::Cfi(_, true) => if r.chance(1, 20) { *r.pick(&[0u16, 2, 3, 4, 5]) } else { 1 },
        Place::Cfi(_, false) => if r.chance(1, 20) { *r.pick(&[0u16, 2, 5, 6]) } else { *r.pick(&[1u16, 3, 4]) },
        _ => *r.pick(&[2u16, 3, 4, 5]),
    };
    GEnc { e: *r.pick(&["le", "le", "be"]), asz: *r.pick(&[1u8, 2, 4, 4, 8, 8, 8]), fmt: *r.pick(&["32", "64"]), ver }
}

fn g_place(r: &mut Rng) -> Place {
    match r.below(20) {
        0..=8 => Place::Attr,
        9..=13 => Place::Loc,
        _ => Place::Cfi(r.below(3) as u8, r.chance(1, 2)),
    }
}

fn place_s(p: Place) -> String {
    match p {
        Place::Attr => "attr".into(),
        Place::Loc => "loc".into(),
        Place::Cfi(k, eh) => format!("{}:{}", ["cfa", "cfe", "cfv"][k as usize], if eh { "eh" } else { "df" }),
    }
}

fn line(p: Place, enc: &GEnc, units: &str, ops: &[String]) -> String {
    format!("c15-{} {} {} {} {} {} {}", place_s(p).replace(':', "-"), enc.e, enc.asz, enc.fmt, enc.ver, units, if ops.is_empty() { "-".to_string() } else { ops.join(";") })
}

/// every builder once, with one operand choice per round, in every place x version x format x address size
fn g_sweep(emit: &mut dyn FnMut(String)) {
    let units = "9/7/b5,v6,R20,v4,d4";
    // entries: 0 base (early), 1 var (early), 2 referrer, 3 var (late), 4 deleted
    let rounds: &[&[&str]] = &[
        &["constu:0", "constu:31", "constu:32", "constu:127", "constu:128", "constu:18446744073709551615", "consts:0", "consts:-1", "consts:63", "consts:64", "consts:-64", "consts:-65",
          "consts:9223372036854775807", "consts:-9223372036854775808"],
        &["reg:0", "reg:31", "reg:32", "reg:127", "reg:128", "reg:65535", "breg:0:0", "breg:31:-1", "breg:32:1", "breg:65535:-9223372036854775808", "fbreg:0", "fbreg:-129"],
        &["pick:0", "pick:1", "pick:2", "pick:255", "deref", "xderef", "deref_size:1", "xderef_size:255", "plus_uconst:0", "plus_uconst:16384"],
        &["op:19", "op:22", "op:23", "op:151", "op:155", "op:156", "op:25", "op:26", "op:27", "op:28", "op:29", "op:30", "op:31", "op:32", "op:33", "op:34", "op:36", "op:37", "op:38", "op:39",
          "op:44", "op:42", "op:41", "op:45", "op:43", "op:46", "op:150", "op:159", "op:240"],
        &["implicit_value:-", "implicit_value:00ff", "piece:0", "piece:1", "piece:2305843009213693951", "bit_piece:0:0", "bit_piece:18446744073709551615:18446744073709551615",
          "wasm_local:0", "wasm_global:128", "wasm_stack:4294967295", "addr:0", "addr:255"],
        &["const_type:0:-", "const_type:0:0102030405060708", "regval_type:0:0", "regval_type:65535:0", "deref_type:4:0", "xderef_type:8:0", "convert:-", "convert:0", "reinterpret:-", "reinterpret:0"],
        &["call:0", "call:3", "parameter_ref:1", "parameter_ref:3", "call_ref:m0", "call_ref:m3", "call_ref:p", "call_ref:n", "variable_value:m2", "variable_value:n", "implicit_pointer:p:-1", "implicit_pointer:m3:64"],
        &["entry_value:0", "entry_value:1", "reg:5", "entry_value:2", "constu:40", "entry_value:1", "breg:33:-70", "skip:6", "bra:0", "skip:1"],
        &["skip:1", "bra:3", "op:150", "skip:0", "bra:5"],
        // references that must be rejected: forward ULEB reference (attr), deleted entry, symbol, CFI
        &["const_type:3:01"],
        &["convert:4"],
        &["call:4"],
        &["call_ref:m4"],
        &["call_ref:s1"],
        &["addrsym:1:0"],
        &["deref_type:1:1", "regval_type:7:2"],
    ];
    for (pi, place) in [Place::Attr, Place::Loc, Place::Cfi(0, false), Place::Cfi(1, true), Place::Cfi(2, false)].into_iter().enumerate() {
        let vers: &[u16] = match place {
            Place::Cfi(_, true) => &[1],
            Place::Cfi(_, false) => &[1, 3, 4],
            _ => &[2, 3, 4, 5],
        };
        for &ver in vers {
            for fmt in ["32", "64"] {
                for asz in [1u8, 2, 4, 8] {
                    for (ri, ops) in rounds.iter().enumerate() {
                        let enc = GEnc { e: if (pi + ri + asz as usize) % 3 == 0 { "be" } else { "le" }, asz, fmt, ver };
                        let ops: Vec<String> = ops.iter().map(|s| s.to_string()).collect();
                        emit(line(place, &enc, units, &ops));
                    }
                }
            }
        }
    }
}

/// branches whose displacement is pushed to the i16 limits by a long body
fn g_far(r: &mut Rng, emit: &mut dyn FnMut(String), n: usize) {
    for i in 0..n {
        let place = if i % 4 == 3 { Place::Cfi(0, false) } else if i % 4 == 2 { Place::Loc } else { Place::Attr };
        let mut enc = g_enc(r, place);
        if let Place::Cfi(..) = place {
            enc.ver = *r.pick(&[1u16, 3, 4]);
        }
        let u = g_units(r);
        let forward = r.chance(1, 2);
        // forward: [br -> k, body…, tail] displacement = size(body); backward: [body…, br -> 0] = -(size(body) + 3)
        let limit: i64 = if forward { 32767 } else { 32768 - 3 };
        let delta = r.below(5) as i64 - 2; // -2..=2 around the limit
        let want = (limit + delta) as usize;
        // body: a few small operations and one implicit_value that supplies the bulk
        let mut body: Vec<String> = Vec::new();
        let mut small = 0usize;
        for _ in 0..r.below(4) {
            match r.below(4) {
                0 => { body.push("op:150".into()); small += 1; }
                1 => { body.push("constu:31".into()); small += 1; }
                2 => { body.push("constu:128".into()); small += 3; }
                _ => { body.push("breg:32:-65".into()); small += 4; }
            }
        }
        // implicit_value of d bytes occupies 1 + uleb(d) + d; d > 16383 here, so uleb(d) = 3
        let d = want - small - 4;
        let data = hex(&vec![(i as u8) | 1; d]);
        let at = r.below(body.len() as u64 + 1) as usize;
        body.insert(at, format!("implicit_value:{data}"));
        let br = *r.pick(&["skip", "bra"]);
        let mut ops: Vec<String> = Vec::new();
        if forward {
            let tail = r.below(3) as usize;
            let k = 1 + body.len();
            ops.push(format!("{br}:{k}"));
            ops.extend(body);
            for _ in 0..tail {
                ops.push("op:150".into());
            }
        } else {
            let head = r.below(2) as usize;
            for _ in 0..head {
                ops.push("op:150".into());
            }
            ops.extend(body);
            ops.push(format!("{br}:{head}"));
            if r.chance(1, 2) {
                ops.push("op:159".into());
            }
        }
        // (the head nops of a backward case are before the target, they do not change the distance)
        emit(line(place, &enc, &u.text, &ops));
    }
}

/// the four i16 limits exactly: forward 32767 / 32768, backward -32768 / -32769, skip and bra,
/// in an attribute, a DWARF 5 location list and a CFI expression
fn g_far_exact(emit: &mut dyn FnMut(String)) {
    for (pi, place) in [Place::Attr, Place::Loc, Place::Cfi(2, false)].into_iter().enumerate() {
        for br in ["skip", "bra"] {
            for (forward, body) in [(true, 32767usize), (true, 32768), (false, 32765), (false, 32766)] {
                let d = body - 4;
                let data = hex(&vec![0x5au8; d]);
                let ops: Vec<String> = if forward {
                    vec![format!("{br}:2"), format!("implicit_value:{data}"), "op:150".into()]
                } else {
                    vec![format!("implicit_value:{data}"), format!("{br}:0")]
                };
                let enc = GEnc { e: if pi == 1 { "be" } else { "le" }, asz: 8, fmt: "32", ver: if matches!(place, Place::Cfi(..)) { 4 } else { 5 } };
                emit(line(place, &enc, "-/-/R12", &ops));
            }
        }
    }
}

/// the `u16` length prefix of location lists up to DWARF 4: an expression of 65535 bytes is written,
/// one of 65536 bytes is `ValueTooLarge` (DWARF 5 and attributes take both: ULEB128)
fn g_u16_prefix(emit: &mut dyn FnMut(String)) {
    for (place, ver) in [(Place::Loc, 2u16), (Place::Loc, 4), (Place::Loc, 5), (Place::Attr, 3)] {
        for d in [65531usize, 65532] {
            let enc = GEnc { e: if d % 2 == 0 { "be" } else { "le" }, asz: 4, fmt: "32", ver };
            emit(line(place, &enc, "-/-/R12", &[format!("implicit_value:{}", hex(&vec![0xa5u8; d]))]));
        }
    }
}

pub fn gen(ctx: &Ctx, emit: &mut dyn FnMut(String)) {
    g_sweep(emit);
    g_far_exact(emit);
    g_u16_prefix(emit);
    let mut r = ctx.rng(15);
    g_far(&mut r, emit, ctx.n(60, 600));
    // structured-valid: random programs whose references must all resolve
    for _ in 0..ctx.n(4200, 120_000) {
        let place = g_place(&mut r);
        let enc = g_enc(&mut r, place);
        let u = g_units(&mut r);
        let policy = if matches!(place, Place::Cfi(..)) { RefPolicy::None } else { RefPolicy::Valid };
        let c = GCtx { u: &u, place, policy };
        let n = match r.below(10) {
            0 => 0,
            1..=5 => r.range(1, 6) as usize,
            6..=8 => r.range(6, 14) as usize,
            _ => r.range(14, 40) as usize,
        };
        let ops = g_prog(&mut r, &c, 0, n);
        emit(line(place, &enc, &u.text, &ops));
    }
    // self-contained programs that the evaluator runs to the end (loops, both branch directions)
    for _ in 0..ctx.n(1800, 50_000) {
        let place = g_place(&mut r);
        let enc = g_enc(&mut r, place);
        let u = g_units(&mut r);
        let n = r.range(2, 16) as usize;
        let ops = g_arith(&mut r, n);
        emit(line(place, &enc, &u.text, &ops));
    }
    // malformed / must-be-rejected: any entry (forward, deleted), symbols, references in CFI,
    // oversized operands, raw bytecode, opcodes `Expression::op` is not meant for
    for _ in 0..ctx.n(900, 25_000) {
        let place = g_place(&mut r);
        let enc = g_enc(&mut r, place);
        let u = g_units(&mut r);
        let c = GCtx { u: &u, place, policy: RefPolicy::Any };
        let n = r.range(1, 8) as usize;
        let mut ops = g_prog(&mut r, &c, 0, n);
        match r.below(8) {
            0 => ops = vec![format!("raw:{}", hex(&r.bytes_below(20)))],
            1 => ops.push(format!("op:{}", r.below(256))),
            2 => ops.push(format!("const_type:{}:{}", r.below(u.n as u64), hex(&vec![7u8; *r.pick(&[255usize, 256, 300])]))),
            3 => ops.push(format!("addr:{}", g_u64(&mut r))),
            4 => ops.push(format!("addrsym:{}:{}", r.below(4), g_i64(&mut r))),
            5 => ops.push(format!("entry_value:1;raw:{}", hex(&r.bytes_below(9)))),
            _ => {}
        }
        emit(line(place, &enc, &u.text, &ops));
    }
    let _ = Tier::Quick;
}
