// Evaluation oracle for C15 (included into c15.rs). Independent of gimli's writer and of the Lean
// Model: the builder calls are serialised once more by a deliberately plain encoder (always the
// long form: DW_OP_constu, DW_OP_regx, DW_OP_bregx, DW_OP_pick; DWARF 5 opcodes; branch displacements
// from its own two passes) and both byte programs are run through `gimli::Evaluation` with the same
// scripted answers. "Evaluating the emitted bytes gives the same result as evaluating the operations
// as built" = the two traces (every request with its operands, the final pieces or the error) agree.

fn n_uleb(mut v: u64, out: &mut Vec<u8>) {
    loop {
        let b = (v & 0x7f) as u8;
        v >>= 7;
        if v != 0 {
            out.push(b | 0x80);
        } else {
            out.push(b);
            return;
        }
    }
}

fn n_sleb(v: i64, out: &mut Vec<u8>) {
    let mut v = v as i128;
    loop {
        let b = (v & 0x7f) as u8;
        v >>= 7;
        let done = (v == 0 && b & 0x40 == 0) || (v == -1 && b & 0x40 != 0);
        if done {
            out.push(b);
            return;
        }
        out.push(b | 0x80);
    }
}

fn n_fixed(v: u64, n: usize, e: RunTimeEndian, out: &mut Vec<u8>) {
    let le = v.to_le_bytes();
    if e == RunTimeEndian::Little {
        out.extend_from_slice(&le[..n]);
    } else {
        out.extend(le[..n].iter().rev());
    }
}

struct Plain<'a> {
    e: RunTimeEndian,
    enc: Encoding,
    names: &'a HashMap<String, (u64, u64)>,
}

impl<'a> Plain<'a> {
    fn uo(&self, i: usize) -> Option<u64> {
        self.names.get(&format!("e{i}")).map(|p| p.0)
    }
    fn io(&self, r: DRef) -> Option<u64> {
        let key = match r {
            DRef::Main(i) => format!("e{i}"),
            DRef::Pre => "pre".into(),
            DRef::Post => "pst".into(),
            DRef::Symbol(_) => return None,
        };
        self.names.get(&key).map(|p| p.1)
    }

    /// one operation with a zero branch displacement; `None` if it has no plain encoding
    fn one(&self, op: &AOp) -> Option<Vec<u8>> {
        let mut o = Vec::new();
        let word = self.enc.format.word_size() as usize;
        match op {
            AOp::Raw(_) | AOp::AddrSym(..) => return None,
            AOp::Simple(b) => {
                simple_name(*b)?;
                o.push(*b)
            }
            AOp::Addr(v) => {
                o.push(0x03);
                n_fixed(*v, self.enc.address_size as usize, self.e, &mut o)
            }
            AOp::Constu(v) => {
                o.push(0x10);
                n_uleb(*v, &mut o)
            }
            AOp::Consts(v) => {
                o.push(0x11);
                n_sleb(*v, &mut o)
            }
            AOp::ConstType(b, v) => {
                o.push(0xa4);
                n_uleb(self.uo(*b)?, &mut o);
                o.push(u8::try_from(v.len()).ok()?);
                o.extend_from_slice(v)
            }
            AOp::Fbreg(x) => {
                o.push(0x91);
                n_sleb(*x, &mut o)
            }
            AOp::Breg(r, x) => {
                o.push(0x92);
                n_uleb(*r as u64, &mut o);
                n_sleb(*x, &mut o)
            }
            AOp::RegvalType(r, b) => {
                o.push(0xa5);
                n_uleb(*r as u64, &mut o);
                n_uleb(self.uo(*b)?, &mut o)
            }
            AOp::Pick(i) => {
                o.push(0x15);
                o.push(*i)
            }
            AOp::Deref(sp) => o.push(if *sp { 0x18 } else { 0x06 }),
            AOp::DerefSize(sp, n) => {
                o.push(if *sp { 0x95 } else { 0x94 });
                o.push(*n)
            }
            AOp::DerefType(sp, n, b) => {
                o.push(if *sp { 0xa7 } else { 0xa6 });
                o.push(*n);
                n_uleb(self.uo(*b)?, &mut o)
            }
            AOp::PlusUconst(v) => {
                o.push(0x23);
                n_uleb(*v, &mut o)
            }
            AOp::Skip(_) => o.extend_from_slice(&[0x2f, 0, 0]),
            AOp::Bra(_) => o.extend_from_slice(&[0x28, 0, 0]),
            AOp::Call(b) => {
                o.push(0x99);
                n_fixed(self.uo(*b)?, 4, self.e, &mut o)
            }
            AOp::CallRef(r) => {
                o.push(0x9a);
                n_fixed(self.io(*r)?, word, self.e, &mut o)
            }
            AOp::VariableValue(r) => {
                o.push(0xfd);
                n_fixed(self.io(*r)?, word, self.e, &mut o)
            }
            AOp::Convert(b) => {
                o.push(0xa8);
                n_uleb(match b { Some(b) => self.uo(*b)?, None => 0 }, &mut o)
            }
            AOp::Reinterpret(b) => {
                o.push(0xa9);
                n_uleb(match b { Some(b) => self.uo(*b)?, None => 0 }, &mut o)
            }
            AOp::EntryValue(body) => {
                let inner = self.all(body)?;
                o.push(0xa3);
                n_uleb(inner.len() as u64, &mut o);
                o.extend_from_slice(&inner)
            }
            AOp::Reg(r) => {
                o.push(0x90);
                n_uleb(*r as u64, &mut o)
            }
            AOp::ImplicitValue(d) => {
                o.push(0x9e);
                n_uleb(d.len() as u64, &mut o);
                o.extend_from_slice(d)
            }
            AOp::ImplicitPointer(r, x) => {
                o.push(0xa0);
                let n = if self.enc.version == 2 { self.enc.address_size as usize } else { word };
                n_fixed(self.io(*r)?, n, self.e, &mut o);
                n_sleb(*x, &mut o)
            }
            AOp::Piece(n) => {
                o.push(0x93);
                n_uleb(*n, &mut o)
            }
            AOp::BitPiece(s, x) => {
                o.push(0x9d);
                n_uleb(*s, &mut o);
                n_uleb(*x, &mut o)
            }
            AOp::ParameterRef(b) => {
                o.push(0xfa);
                n_fixed(self.uo(*b)?, 4, self.e, &mut o)
            }
            AOp::WasmLocal(i) => {
                o.extend_from_slice(&[0xed, 0]);
                n_uleb(*i as u64, &mut o)
            }
            AOp::WasmGlobal(i) => {
                o.extend_from_slice(&[0xed, 1]);
                n_uleb(*i as u64, &mut o)
            }
            AOp::WasmStack(i) => {
                o.extend_from_slice(&[0xed, 2]);
                n_uleb(*i as u64, &mut o)
            }
        }
        Some(o)
    }

    fn all(&self, ops: &[AOp]) -> Option<Vec<u8>> {
        let parts: Vec<Vec<u8>> = ops.iter().map(|o| self.one(o)).collect::<Option<_>>()?;
        let mut starts = Vec::with_capacity(parts.len() + 1);
        let mut off = 0usize;
        for p in &parts {
            starts.push(off);
            off += p.len();
        }
        starts.push(off);
        let mut out = Vec::with_capacity(off);
        for (k, (op, p)) in ops.iter().zip(parts.iter()).enumerate() {
            match op {
                AOp::Skip(t) | AOp::Bra(t) => {
                    let d = starts[*t] as i64 - starts[k + 1] as i64;
                    let d = i16::try_from(d).ok()?;
                    out.push(p[0]);
                    n_fixed(d as u16 as u64, 2, self.e, &mut out);
                }
                _ => out.extend_from_slice(p),
            }
        }
        Some(out)
    }
}

fn mix(a: u64, b: u64) -> u64 {
    let mut z = a.wrapping_mul(0x9e3779b97f4a7c15) ^ b.wrapping_add(0x632be59bd9b4e019);
    z = (z ^ (z >> 29)).wrapping_mul(0xbf58476d1ce4e5b9);
    z ^ (z >> 32)
}

fn trace(bs: &[u8], e: RunTimeEndian, enc: Encoding, initial: Option<u64>, seed: u64) -> String {
    use gimli::{DieReference, EvaluationResult as ER, Location, Value, ValueType};
    let sub: [u8; 2] = [0x30 + (seed % 32) as u8, 0x9f]; // lit<k>; stack_value
    let mut ev = gimli::Evaluation::new(EndianSlice::new(bs, e), enc);
    ev.set_max_iterations(4000);
    ev.set_object_address(mix(seed, 77));
    if let Some(v) = initial {
        ev.set_initial_value(v);
    }
    let mut t = String::new();
    let mut r = ev.evaluate();
    for _ in 0..300 {
        match r {
            Err(er) => {
                t.push_str(&format!("err:{}", rerr(&er)));
                return t;
            }
            Ok(ER::Complete) => {
                for p in ev.result() {
                    let loc = match p.location {
                        Location::Empty => "empty".to_string(),
                        Location::Register { register } => format!("reg({})", register.0),
                        Location::Address { address } => format!("addr({address})"),
                        Location::Value { value } => format!("val({:?})", value),
                        Location::Bytes { value } => format!("bytes({})", hex(value.slice())),
                        Location::ImplicitPointer { value, byte_offset } => format!("iptr({},{})", value.0, byte_offset),
                    };
                    t.push_str(&format!("piece({},{},{});", opt_s(p.size_in_bits), opt_s(p.bit_offset), loc));
                }
                t.push_str("complete");
                return t;
            }
            Ok(req) => {
                let (text, next) = match req {
                    ER::Complete => unreachable!(),
                    ER::RequiresMemory { address, size, space, base_type } => (
                        format!("mem({},{},{},{})", address, size, opt_s(space), base_type.0),
                        ev.resume_with_memory(if base_type.0 == 0 { Value::Generic(mix(seed, address)) } else { Value::U32(mix(seed, address) as u32) }),
                    ),
                    ER::RequiresRegister { register, base_type } => (
                        format!("reg({},{})", register.0, base_type.0),
                        ev.resume_with_register(if base_type.0 == 0 { Value::Generic(mix(seed, register.0 as u64)) } else { Value::U32(mix(seed, register.0 as u64) as u32) }),
                    ),
                    ER::RequiresWasmLocal { index } => (format!("wasm_local({index})"), ev.resume_with_wasm_value(Value::Generic(mix(seed, index as u64)))),
                    ER::RequiresWasmGlobal { index } => (format!("wasm_global({index})"), ev.resume_with_wasm_value(Value::Generic(mix(seed, index as u64)))),
                    ER::RequiresWasmStack { index } => (format!("wasm_stack({index})"), ev.resume_with_wasm_value(Value::Generic(mix(seed, index as u64)))),
                    ER::RequiresFrameBase => ("frame_base".into(), ev.resume_with_frame_base(mix(seed, 1))),
                    ER::RequiresTls(i) => (format!("tls({i})"), ev.resume_with_tls(mix(seed, i))),
                    ER::RequiresCallFrameCfa => ("cfa".into(), ev.resume_with_call_frame_cfa(mix(seed, 2))),
                    ER::RequiresAtLocation(DieReference::UnitRef(o)) => (format!("at_location(u{})", o.0), ev.resume_with_at_location(EndianSlice::new(&sub, e))),
                    ER::RequiresAtLocation(DieReference::DebugInfoRef(o)) => (format!("at_location(i{})", o.0), ev.resume_with_at_location(EndianSlice::new(&sub, e))),
                    ER::RequiresEntryValue(ref x) => (format!("entry_value({})", hex(x.0.slice())), ev.resume_with_entry_value(Value::Generic(mix(seed, 3)))),
                    ER::RequiresParameterRef(o) => (format!("parameter_ref({})", o.0), ev.resume_with_parameter_ref(mix(seed, 4))),
                    ER::RequiresRelocatedAddress(a) => (format!("relocated({a})"), ev.resume_with_relocated_address(a.wrapping_add(seed & 0xff))),
                    ER::RequiresIndexedAddress { index, relocate } => (format!("indexed({},{})", index.0, relocate as u8), ev.resume_with_indexed_address(mix(seed, index.0 as u64))),
                    ER::RequiresBaseType(o) => (format!("base_type({})", o.0), ev.resume_with_base_type(ValueType::U32)),
                };
                t.push_str(&text);
                t.push(';');
                r = next;
            }
        }
    }
    t.push_str("cap");
    t
}

/// hash of the entry_value payloads apart, the two traces must be identical: an `entry_value`
/// request carries the sub-expression's *bytes*, which legitimately differ between the two
/// encodings (they are compared operation by operation by the decode oracle instead)
fn strip_entry_value(t: &str) -> String {
    t.split(';').map(|p| if p.starts_with("entry_value(") { "entry_value" } else { p }).collect::<Vec<_>>().join(";")
}

fn eval_oracle_with(ops: &[AOp], emitted: &[u8], e: RunTimeEndian, enc: Encoding, names: &HashMap<String, (u64, u64)>) -> Result<(), String> {
    if has_raw(ops) {
        return Ok(());
    }
    let plain_enc = Encoding { version: if enc.version == 2 { 2 } else { enc.version }, ..enc };
    let Some(plain) = (Plain { e, enc: plain_enc, names }).all(ops) else { return Ok(()) };
    for (k, initial) in [None, Some(0u64), Some(0x1234_5678_9abc_def1)].into_iter().enumerate() {
        let seed = 0xc15 + k as u64 * 7919;
        let a = strip_entry_value(&trace(emitted, e, enc, initial, seed));
        let b = strip_entry_value(&trace(&plain, e, enc, initial, seed));
        if a != b {
            return Err(format!("eval-differs initial={:?}: emitted `{}` built `{}`", initial, a, b));
        }
    }
    Ok(())
}
