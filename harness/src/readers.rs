//! Reader wrappers over the public `gimli::Reader` trait.
//!  * `FailReader` — an `EndianSlice` that can be made to report a failure at the k-th fallible
//!    primitive operation of the current thread (C01: "the underlying reader reports a failure at
//!    any operation"); with the budget unset it is observationally an `EndianSlice`.
use gimli::{EndianSlice, Reader, ReaderOffsetId, RunTimeEndian};
use std::borrow::Cow;
use std::cell::Cell;

thread_local! {
    static BUDGET: Cell<u64> = Cell::new(u64::MAX);
    static OPS: Cell<u64> = Cell::new(0);
}

/// fail the `k`-th (0-based) fallible reader operation from now on this thread; `None` = never
pub fn set_fail_at(k: Option<u64>) {
    BUDGET.with(|b| b.set(k.unwrap_or(u64::MAX)));
    OPS.with(|o| o.set(0));
}
/// number of fallible reader operations performed since `set_fail_at`
pub fn ops_done() -> u64 {
    OPS.with(|o| o.get())
}

#[inline]
fn tick() -> gimli::Result<()> {
    OPS.with(|o| o.set(o.get() + 1));
    BUDGET.with(|b| {
        let v = b.get();
        if v == u64::MAX {
            Ok(())
        } else if v == 0 {
            Err(gimli::Error::Io)
        } else {
            b.set(v - 1);
            Ok(())
        }
    })
}

#[derive(Debug, Clone, Copy, PartialEq, Eq)]
pub struct FailReader<'a>(pub EndianSlice<'a, RunTimeEndian>);

impl<'a> FailReader<'a> {
    pub fn new(b: &'a [u8], e: RunTimeEndian) -> Self {
        FailReader(EndianSlice::new(b, e))
    }
}

impl<'a> Reader for FailReader<'a> {
    type Endian = RunTimeEndian;
    type Offset = usize;
    fn endian(&self) -> RunTimeEndian {
        Reader::endian(&self.0)
    }
    fn len(&self) -> usize {
        Reader::len(&self.0)
    }
    fn empty(&mut self) {
        Reader::empty(&mut self.0)
    }
    fn truncate(&mut self, len: usize) -> gimli::Result<()> {
        tick()?;
        Reader::truncate(&mut self.0, len)
    }
    fn offset_from(&self, base: &Self) -> usize {
        Reader::offset_from(&self.0, &base.0)
    }
    fn offset_id(&self) -> ReaderOffsetId {
        self.0.offset_id()
    }
    fn lookup_offset_id(&self, id: ReaderOffsetId) -> Option<usize> {
        self.0.lookup_offset_id(id)
    }
    fn find(&self, byte: u8) -> gimli::Result<usize> {
        tick()?;
        Reader::find(&self.0, byte)
    }
    fn skip(&mut self, len: usize) -> gimli::Result<()> {
        tick()?;
        Reader::skip(&mut self.0, len)
    }
    fn split(&mut self, len: usize) -> gimli::Result<Self> {
        tick()?;
        Reader::split(&mut self.0, len).map(FailReader)
    }
    fn to_slice(&self) -> gimli::Result<Cow<'_, [u8]>> {
        tick()?;
        Reader::to_slice(&self.0)
    }
    fn to_string(&self) -> gimli::Result<Cow<'_, str>> {
        tick()?;
        Reader::to_string(&self.0)
    }
    fn to_string_lossy(&self) -> gimli::Result<Cow<'_, str>> {
        tick()?;
        Reader::to_string_lossy(&self.0)
    }
    fn read_slice(&mut self, buf: &mut [u8]) -> gimli::Result<()> {
        tick()?;
        Reader::read_slice(&mut self.0, buf)
    }
}
