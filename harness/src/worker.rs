//! `gvh worker`: the implementation side of the line protocol, crash-isolated.
//! Every request runs under `catch_unwind`; a panic is answered as
//! `panic <file>: <message>`; aborts, stack overflows and hangs are seen by the orchestrator
//! as death / silence of this process.
use std::cell::RefCell;
use std::io::{BufRead, Write};
use std::panic;

thread_local! {
    static LAST_PANIC: RefCell<String> = RefCell::new(String::new());
}

pub fn serve() {
    panic::set_hook(Box::new(|info| {
        let loc = info.location().map(|l| format!("{}:{}", l.file(), l.line())).unwrap_or_default();
        let msg = if let Some(s) = info.payload().downcast_ref::<&str>() {
            s.to_string()
        } else if let Some(s) = info.payload().downcast_ref::<String>() {
            s.clone()
        } else {
            "?".into()
        };
        LAST_PANIC.with(|p| *p.borrow_mut() = format!("{loc}: {msg}"));
    }));
    let stack = std::env::var("GVH_STACK").ok().and_then(|s| s.parse().ok()).unwrap_or(1usize << 20);
    let t = std::thread::Builder::new()
        .stack_size(stack)
        .spawn(|| {
            let stdin = std::io::stdin();
            let stdout = std::io::stdout();
            let mut out = std::io::BufWriter::new(stdout.lock());
            for line in stdin.lock().lines() {
                let Ok(line) = line else { break };
                let res = panic::catch_unwind(|| crate::prop::dispatch(&line));
                let reply = match res {
                    Ok(s) => s,
                    Err(_) => {
                        let m = LAST_PANIC.with(|p| p.borrow().clone());
                        format!("panic {}", m.replace('\n', " "))
                    }
                };
                let _ = writeln!(out, "{}", reply);
                let _ = out.flush();
            }
        })
        .unwrap();
    let _ = t.join();
}
