//! Client side of a line server (the Lean driver `gimli-model`, or `gvh worker`):
//! one request line in, one response line out; per-request watchdog; restart on death.
use std::io::{BufRead, BufReader, Write};
use std::process::{Child, ChildStdin, Command, Stdio};
use std::sync::mpsc::{channel, Receiver, RecvTimeoutError};
use std::time::Duration;

pub struct LineServer {
    pub name: String,
    cmd: Vec<String>,
    envs: Vec<(String, String)>,
    child: Option<Child>,
    stdin: Option<ChildStdin>,
    rx: Option<Receiver<Option<String>>>,
    pub restarts: u64,
    pub hangs: u64,
    /// requests that answered only when asked again with a longer timeout
    pub slow: u64,
    pub deaths: u64,
}

#[derive(Debug, Clone, PartialEq)]
pub enum Reply {
    Line(String),
    /// the process died (abort, stack overflow, signal) while this request was in flight
    Died(String),
    /// no reply within the watchdog
    Hang,
}

impl LineServer {
    pub fn new(name: &str, cmd: Vec<String>, envs: Vec<(String, String)>) -> Self {
        LineServer { name: name.into(), cmd, envs, child: None, stdin: None, rx: None, restarts: 0, hangs: 0, slow: 0, deaths: 0 }
    }

    fn start(&mut self) {
        let mut c = Command::new(&self.cmd[0]);
        c.args(&self.cmd[1..]).stdin(Stdio::piped()).stdout(Stdio::piped()).stderr(Stdio::null());
        for (k, v) in &self.envs {
            c.env(k, v);
        }
        let mut child = c.spawn().unwrap_or_else(|e| panic!("cannot start {}: {e}", self.cmd[0]));
        let stdout = child.stdout.take().unwrap();
        let (tx, rx) = channel();
        std::thread::spawn(move || {
            let mut r = BufReader::with_capacity(1 << 16, stdout);
            loop {
                let mut line = String::new();
                match r.read_line(&mut line) {
                    Ok(0) | Err(_) => {
                        let _ = tx.send(None);
                        return;
                    }
                    Ok(_) => {
                        while line.ends_with('\n') || line.ends_with('\r') {
                            line.pop();
                        }
                        if tx.send(Some(line)).is_err() {
                            return;
                        }
                    }
                }
            }
        });
        self.stdin = child.stdin.take();
        self.child = Some(child);
        self.rx = Some(rx);
    }

    pub fn kill(&mut self) -> String {
        self.stdin = None;
        let mut status = String::from("unknown");
        if let Some(mut c) = self.child.take() {
            let _ = c.kill();
            if let Ok(st) = c.wait() {
                status = format!("{st}");
            }
        }
        self.rx = None;
        status
    }

    fn reap(&mut self) -> String {
        self.stdin = None;
        let mut status = String::from("unknown");
        if let Some(mut c) = self.child.take() {
            if let Ok(st) = c.wait() {
                status = format!("{st}");
            }
        }
        self.rx = None;
        status
    }

    /// synchronous request
    pub fn ask(&mut self, line: &str, timeout: Duration) -> Reply {
        if self.child.is_none() {
            self.start();
        }
        let ok = {
            let w = self.stdin.as_mut().unwrap();
            w.write_all(line.as_bytes()).and_then(|_| w.write_all(b"\n")).and_then(|_| w.flush()).is_ok()
        };
        if !ok {
            let st = self.reap();
            self.restarts += 1;
            return Reply::Died(st);
        }
        match self.rx.as_ref().unwrap().recv_timeout(timeout) {
            Ok(Some(l)) => Reply::Line(l),
            Ok(None) | Err(RecvTimeoutError::Disconnected) => {
                let st = self.reap();
                self.restarts += 1;
                Reply::Died(st)
            }
            Err(RecvTimeoutError::Timeout) => {
                self.kill();
                self.restarts += 1;
                Reply::Hang
            }
        }
    }

    /// pipelined batch: all requests are written by a helper thread while replies are read.
    /// On death/hang the offending request gets that reply and the remaining ones are re-sent
    /// to a fresh process.
    pub fn batch(&mut self, lines: &[String], timeout: Duration) -> Vec<Reply> {
        let mut out: Vec<Reply> = Vec::with_capacity(lines.len());
        while out.len() < lines.len() {
            // circuit breaker: a tree on which (nearly) every case hangs or kills the worker would
            // otherwise take cases x timeout; what has been seen by then is reported, the rest of
            // the batch is left unevaluated (the caller records how many)
            if self.hangs as u64 * timeout.as_secs().max(1) * 6 >= 300 || self.deaths >= 3000 {
                break;
            }
            if self.child.is_none() {
                self.start();
            }
            let start = out.len();
            let mut w = self.stdin.take().unwrap();
            let todo: Vec<String> = lines[start..].to_vec();
            let writer = std::thread::spawn(move || {
                let mut buf = std::io::BufWriter::with_capacity(1 << 16, &mut w);
                for l in &todo {
                    if buf.write_all(l.as_bytes()).is_err() || buf.write_all(b"\n").is_err() {
                        return None;
                    }
                }
                if buf.flush().is_err() {
                    return None;
                }
                drop(buf);
                Some(w)
            });
            let mut failed = false;
            let mut retry: Option<String> = None;
            while out.len() < lines.len() {
                match self.rx.as_ref().unwrap().recv_timeout(timeout) {
                    Ok(Some(l)) => out.push(Reply::Line(l)),
                    Ok(None) | Err(RecvTimeoutError::Disconnected) => {
                        let st = self.reap();
                        self.restarts += 1;
                        self.deaths += 1;
                        out.push(Reply::Died(st));
                        failed = true;
                        break;
                    }
                    Err(RecvTimeoutError::Timeout) => {
                        self.kill();
                        self.restarts += 1;
                        retry = Some(lines[out.len()].clone());
                        failed = true;
                        break;
                    }
                }
            }
            let w = writer.join().ok().flatten();
            if !failed {
                self.stdin = w;
            }
            // a reply that did not arrive in time is a hang only if the request, asked again on its own
            // in a fresh process with five times the time, still does not answer: a loaded machine (or a
            // slow external oracle) must not be reported as a hang of the implementation
            if let Some(line) = retry.take() {
                match self.ask(&line, timeout * 5) {
                    Reply::Line(l) => {
                        self.slow += 1;
                        out.push(Reply::Line(l));
                    }
                    Reply::Hang => {
                        self.hangs += 1;
                        out.push(Reply::Hang);
                    }
                    Reply::Died(st) => {
                        self.deaths += 1;
                        out.push(Reply::Died(st));
                    }
                }
            }
        }
        out
    }
}

impl Drop for LineServer {
    fn drop(&mut self) {
        self.kill();
    }
}
