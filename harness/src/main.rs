mod asm;
mod dump;
mod orch;
mod proc;
mod readers;
mod prop;
mod util;
mod worker;

use prop::Tier;

fn arg(args: &[String], name: &str) -> Option<String> {
    args.iter().position(|a| a == name).and_then(|i| args.get(i + 1).cloned())
}

fn main() {
    let args: Vec<String> = std::env::args().collect();
    match args.get(1).map(|s| s.as_str()) {
        Some("worker") => worker::serve(),
        Some("gen") => {
            let prop = args.get(2).cloned().unwrap_or_default();
            let tier = if arg(&args, "--tier").as_deref() == Some("thorough") { Tier::Thorough } else { Tier::Quick };
            let seed = arg(&args, "--seed").and_then(|s| s.parse().ok()).unwrap_or(1);
            let ctx = prop::Ctx { tier, seed };
            for p in prop::all() {
                if p.id == prop {
                    (p.gen)(&ctx, &mut |s| println!("{s}"));
                }
            }
        }
        Some("run") => {
            let prop = args.get(2).cloned().unwrap_or_default();
            let tier = if arg(&args, "--tier").as_deref() == Some("thorough") { Tier::Thorough } else { Tier::Quick };
            let seed = arg(&args, "--seed").and_then(|s| s.parse().ok()).unwrap_or(1);
            let mut workers = Vec::new();
            for (i, a) in args.iter().enumerate() {
                if a == "--worker" {
                    if let Some((m, p)) = args.get(i + 1).and_then(|s| s.split_once('=')) {
                        workers.push((m.to_string(), p.to_string()));
                    }
                }
            }
            let code = orch::run(orch::Opts {
                prop,
                tier,
                seed,
                model: arg(&args, "--model").expect("--model"),
                workers,
                out: arg(&args, "--out").expect("--out"),
                replay: arg(&args, "--replay"),
                corpus: arg(&args, "--corpus"),
            });
            std::process::exit(code);
        }
        _ => {
            eprintln!("usage: gvh worker | gvh gen <Cxx> | gvh run <Cxx> --tier quick|thorough --seed N --model PATH --worker debug=PATH [--worker release=PATH] --out FILE [--replay FILE] [--corpus FILE]");
            std::process::exit(2);
        }
    }
}
