//! Semantic dump of parsed DWARF: what the data *means*, independent of how it is encoded
//! (offsets, abbreviation codes, forms, list encodings, string tables, opcode choices).
//! Two `Dwarf`s with equal dumps have the same entry forest, attribute meanings, line rows and
//! file tables, ranges, location expressions.  Used by C12 (conversion preserves meaning).
#![allow(dead_code)]
use gimli::read::{AttributeValue, Dwarf, EndianSlice, Operation, Reader, Unit, UnitOffset};
use gimli::RunTimeEndian;
use std::collections::HashMap;
use std::fmt::Write;

pub type R<'a> = EndianSlice<'a, RunTimeEndian>;

fn hx(b: &[u8]) -> String {
    crate::util::hex(b)
}

pub struct UnitMap {
    /// unit-relative offset of each DIE -> its index in depth-first order
    pub by_offset: HashMap<usize, usize>,
    /// .debug_info offset of the unit header
    pub base: usize,
    pub len: usize,
}

pub struct Maps {
    pub units: Vec<UnitMap>,
}

impl Maps {
    pub fn build<'a>(dwarf: &Dwarf<R<'a>>) -> Result<Maps, String> {
        let mut units = Vec::new();
        let mut it = dwarf.units();
        while let Some(h) = it.next().map_err(|e| format!("units: {e:?}"))? {
            let base = h.debug_info_offset().map(|o| o.0).unwrap_or(0);
            let len = h.length_including_self();
            let abbrevs = dwarf.abbreviations(&h).map_err(|e| format!("abbrev: {e:?}"))?;
            let mut by_offset = HashMap::new();
            let mut c = h.entries(&abbrevs);
            let mut k = 0usize;
            while let Some(e) = c.next_dfs().map_err(|e| format!("dfs: {e:?}"))? {
                by_offset.insert(e.offset().0, k);
                k += 1;
            }
            units.push(UnitMap { by_offset, base, len });
        }
        Ok(Maps { units })
    }
    fn unit_ref(&self, ui: usize, off: usize) -> String {
        match self.units[ui].by_offset.get(&off) {
            Some(k) => format!("#{k}"),
            None => format!("#?{off}"),
        }
    }
    fn info_ref(&self, off: usize) -> String {
        for (ui, u) in self.units.iter().enumerate() {
            if off >= u.base && off < u.base + u.len {
                return match u.by_offset.get(&(off - u.base)) {
                    Some(k) => format!("{ui}/#{k}"),
                    None => format!("{ui}/#?{}", off - u.base),
                };
            }
        }
        format!("?/{off}")
    }
}

/// expression meaning: operations with branch targets as operation indices, references as DIE
/// identities, indexed addresses resolved
pub fn expr_text<'a>(dwarf: &Dwarf<R<'a>>, unit: &Unit<R<'a>>, maps: &Maps, ui: usize, bytes: R<'a>, depth: u32) -> String {
    let encoding = unit.encoding();
    let mut ops: Vec<(usize, Operation<R<'a>>)> = Vec::new();
    let mut offsets: Vec<usize> = Vec::new();
    let mut r = bytes;
    let total = bytes.len();
    loop {
        let at = total - r.len();
        if r.is_empty() {
            offsets.push(at);
            break;
        }
        match Operation::parse(&mut r, encoding) {
            Ok(op) => {
                offsets.push(at);
                ops.push((total - r.len(), op));
            }
            Err(e) => return format!("bad-expr@{at}:{e:?}:{}", hx(bytes.slice())),
        }
    }
    let bt = |o: UnitOffset| if o.0 == 0 { "generic".to_string() } else { maps.unit_ref(ui, o.0) };
    let target = |end: usize, t: i16| -> String {
        let dest = end as i64 + t as i64;
        match offsets.iter().position(|&o| o as i64 == dest) {
            Some(i) if i == ops.len() => "end".into(),
            Some(i) => format!("op{i}"),
            None => format!("bad{dest}"),
        }
    };
    let mut out = String::new();
    for (end, op) in &ops {
        let s = match op {
            Operation::Bra { target: t } => format!("bra->{}", target(*end, *t)),
            Operation::Skip { target: t } => format!("skip->{}", target(*end, *t)),
            Operation::Deref { base_type, size, space } => format!("deref({},{size},{space})", bt(*base_type)),
            Operation::RegisterOffset { register, offset, base_type } => format!("breg({},{offset},{})", register.0, bt(*base_type)),
            Operation::Call { offset } => match offset {
                gimli::read::DieReference::UnitRef(o) => format!("call({})", maps.unit_ref(ui, o.0)),
                gimli::read::DieReference::DebugInfoRef(o) => format!("call({})", maps.info_ref(o.0)),
            },
            Operation::VariableValue { offset } => format!("varval({})", maps.info_ref(offset.0)),
            Operation::ImplicitPointer { value, byte_offset } => format!("implptr({},{byte_offset})", maps.info_ref(value.0)),
            Operation::ImplicitValue { data } => format!("implval({})", hx(data.slice())),
            Operation::EntryValue { expression } => {
                if depth < 4 {
                    format!("entry[{}]", expr_text(dwarf, unit, maps, ui, *expression, depth + 1))
                } else {
                    format!("entry[{}]", hx(expression.slice()))
                }
            }
            Operation::ParameterRef { offset } => format!("paramref({})", maps.unit_ref(ui, offset.0)),
            Operation::AddressIndex { index } => match dwarf.address(unit, *index) {
                Ok(a) => format!("addr({a:#x})"),
                Err(_) => format!("addrx({})", index.0),
            },
            Operation::ConstantIndex { index } => match dwarf.address(unit, *index) {
                Ok(a) => format!("const({a:#x})"),
                Err(_) => format!("constx({})", index.0),
            },
            Operation::Address { address } => format!("addr({address:#x})"),
            Operation::UnsignedConstant { value } => format!("const({value:#x})"),
            Operation::SignedConstant { value } => {
                if *value >= 0 {
                    format!("const({:#x})", *value as u64)
                } else {
                    format!("sconst({value})")
                }
            }
            Operation::TypedLiteral { base_type, value } => format!("typed({},{})", bt(*base_type), hx(value.slice())),
            Operation::Convert { base_type } => format!("convert({})", bt(*base_type)),
            Operation::Reinterpret { base_type } => format!("reinterpret({})", bt(*base_type)),
            other => format!("{other:?}").replace(' ', ""),
        };
        if !out.is_empty() {
            out.push(' ');
        }
        out.push_str(&s);
    }
    out
}

fn file_text<'a>(dwarf: &Dwarf<R<'a>>, unit: &Unit<R<'a>>, index: u64) -> String {
    let Some(lp) = &unit.line_program else { return format!("file?{index}") };
    let h = lp.header();
    let Some(f) = h.file(index) else { return format!("file?{index}") };
    let name = dwarf.attr_string(unit, f.path_name()).map(|s| hx(s.slice())).unwrap_or_else(|_| "?".into());
    let dir = match f.directory(h) {
        Some(d) => dwarf.attr_string(unit, d).map(|s| hx(s.slice())).unwrap_or_else(|_| "?".into()),
        None => "none".into(),
    };
    format!("file({dir}/{name})")
}

fn attr_text<'a>(dwarf: &Dwarf<R<'a>>, unit: &Unit<R<'a>>, maps: &Maps, ui: usize, attr: &gimli::read::Attribute<R<'a>>) -> String {
    let v = attr.value();
    // list-valued attributes: compare what they resolve to
    if let Ok(Some(mut it)) = dwarf.attr_ranges(unit, v.clone()) {
        let mut s = String::from("ranges[");
        let mut n = 0;
        loop {
            match it.next() {
                Ok(Some(r)) => write!(s, "{:x}-{:x},", r.begin, r.end).unwrap(),
                Ok(None) => break,
                Err(e) => {
                    write!(s, "E{:?}", e).unwrap();
                    break;
                }
            }
            n += 1;
            if n > 10_000 {
                break;
            }
        }
        s.push(']');
        return s;
    }
    if let Ok(Some(mut it)) = dwarf.attr_locations(unit, v.clone()) {
        let mut s = String::from("locs[");
        let mut n = 0;
        loop {
            match it.next() {
                Ok(Some(l)) => write!(s, "{:x}-{:x}:{{{}}},", l.range.begin, l.range.end, expr_text(dwarf, unit, maps, ui, l.data.0, 0)).unwrap(),
                Ok(None) => break,
                Err(e) => {
                    write!(s, "E{:?}", e).unwrap();
                    break;
                }
            }
            n += 1;
            if n > 10_000 {
                break;
            }
        }
        s.push(']');
        return s;
    }
    match v {
        AttributeValue::Addr(a) => format!("addr({a:#x})"),
        AttributeValue::DebugAddrIndex(i) => match dwarf.address(unit, i) {
            Ok(a) => format!("addr({a:#x})"),
            Err(_) => format!("addrx({})", i.0),
        },
        AttributeValue::Block(b) => format!("block({})", hx(b.slice())),
        AttributeValue::Data1(x) => format!("const({x})"),
        AttributeValue::Data2(x) => format!("const({x})"),
        AttributeValue::Data4(x) => format!("const({x})"),
        AttributeValue::Data8(x) => format!("const({x})"),
        AttributeValue::Data16(x) => format!("const({x})"),
        AttributeValue::Udata(x) => format!("const({x})"),
        AttributeValue::Sdata(x) => format!("const({x})"),
        AttributeValue::Exprloc(e) => format!("expr{{{}}}", expr_text(dwarf, unit, maps, ui, e.0, 0)),
        AttributeValue::Flag(b) => format!("flag({b})"),
        AttributeValue::UnitRef(o) => format!("ref({})", maps.unit_ref(ui, o.0)),
        AttributeValue::DebugInfoRef(o) => format!("ref({})", maps.info_ref(o.0)),
        AttributeValue::DebugLineRef(_) => "lineprog".into(),
        AttributeValue::String(_) | AttributeValue::DebugStrRef(_) | AttributeValue::DebugStrOffsetsIndex(_) | AttributeValue::DebugLineStrRef(_) => {
            match dwarf.attr_string(unit, v.clone()) {
                Ok(s) => format!("str({})", hx(s.slice())),
                Err(e) => format!("str(E{e:?})"),
            }
        }
        AttributeValue::FileIndex(i) => file_text(dwarf, unit, i),
        // bases are encoding artefacts of the input (the writer emits its own), not meaning
        AttributeValue::DebugAddrBase(_) | AttributeValue::DebugLocListsBase(_) | AttributeValue::DebugRngListsBase(_) | AttributeValue::DebugStrOffsetsBase(_) => "base".into(),
        other => format!("{other:?}").replace(' ', ""),
    }
}

pub struct DumpOpts {
    /// attributes whose presence/value is an encoding artefact
    pub skip_sibling: bool,
    pub skip_bases: bool,
}

pub fn dump<'a>(dwarf: &Dwarf<R<'a>>) -> Result<Vec<String>, String> {
    let maps = Maps::build(dwarf)?;
    let mut out = Vec::new();
    let mut it = dwarf.units();
    let mut ui = 0usize;
    while let Some(h) = it.next().map_err(|e| format!("units: {e:?}"))? {
        let unit = dwarf.unit(h).map_err(|e| format!("unit {ui}: {e:?}"))?;
        let enc = unit.encoding();
        out.push(format!("unit {ui} v{} f{} a{}", enc.version, enc.format.word_size(), enc.address_size));
        let mut c = unit.entries();
        let mut k = 0usize;
        while let Some(e) = c.next_dfs().map_err(|e| format!("dfs: {e:?}"))? {
            let mut line = format!("  die #{k} d{} {:?}", e.depth(), e.tag());
            for a in e.attrs() {
                match a.name() {
                    gimli::DW_AT_sibling => continue,
                    // the line program is dumped as rows below; the writer omits an unused empty program
                    gimli::DW_AT_stmt_list => continue,
                    gimli::DW_AT_addr_base | gimli::DW_AT_str_offsets_base | gimli::DW_AT_rnglists_base | gimli::DW_AT_loclists_base | gimli::DW_AT_GNU_addr_base | gimli::DW_AT_GNU_ranges_base => continue,
                    _ => {}
                }
                write!(line, " {:?}={}", a.name(), attr_text(dwarf, &unit, &maps, ui, a)).unwrap();
            }
            out.push(line);
            k += 1;
        }
        if let Some(lp) = unit.line_program.clone() {
            let mut rows = lp.rows();
            let mut n = 0;
            // rows of the sequence being read; a sequence that consists of nothing but its
            // end_sequence row maps no address to a line and is not part of the meaning
            let mut seq: Vec<String> = Vec::new();
            loop {
                match rows.next_row() {
                    Ok(Some((header, row))) => {
                        let file = match row.file(header) {
                            Some(f) => {
                                let name = dwarf.attr_string(&unit, f.path_name()).map(|s| hx(s.slice())).unwrap_or_else(|_| "?".into());
                                let dir = match f.directory(header) {
                                    Some(d) => dwarf.attr_string(&unit, d).map(|s| hx(s.slice())).unwrap_or_else(|_| "?".into()),
                                    None => "none".into(),
                                };
                                format!("{dir}/{name}")
                            }
                            None => format!("?{}", row.file_index()),
                        };
                        if row.end_sequence() {
                            if !seq.is_empty() {
                                out.append(&mut seq);
                                // of the end row only the address is meaningful (it ends the last row's range)
                                out.push(format!("  row {:x} op{} end", row.address(), row.op_index()));
                            }
                            seq.clear();
                        } else {
                            seq.push(format!(
                                "  row {:x} op{} {} l{:?} c{:?} stmt{} bb{} pe{} eb{} isa{} d{}",
                                row.address(),
                                row.op_index(),
                                file,
                                row.line().map(|l| l.get()),
                                row.column(),
                                row.is_stmt(),
                                row.basic_block(),
                                row.prologue_end(),
                                row.epilogue_begin(),
                                row.isa(),
                                row.discriminator()
                            ));
                        }
                    }
                    Ok(None) => break,
                    Err(e) => {
                        out.append(&mut seq);
                        out.push(format!("  row E{e:?}"));
                        break;
                    }
                }
                n += 1;
                if n > 100_000 {
                    break;
                }
            }
            out.append(&mut seq);
        }
        ui += 1;
    }
    Ok(out)
}

/// unwind rows of every FDE of a frame section, keyed by the FDE's address range
pub fn dump_frames<'a, S: gimli::read::UnwindSection<R<'a>>>(section: &S, bases: &gimli::read::BaseAddresses) -> Result<Vec<String>, String>
where
    S::Offset: gimli::read::UnwindOffset<usize>,
{
    let mut out = Vec::new();
    let mut ctx = gimli::read::UnwindContext::new();
    let mut it = section.entries(bases);
    while let Some(e) = it.next().map_err(|e| format!("entries: {e:?}"))? {
        if let gimli::read::CieOrFde::Fde(p) = e {
            let fde = p.parse(|s, b, o| s.cie_from_offset(b, o)).map_err(|e| format!("fde: {e:?}"))?;
            let cie = fde.cie();
            let mut s = format!(
                "fde {:x}+{:x} lsda={:?} pers={:?} sig={} ra={}",
                fde.initial_address(),
                fde.len(),
                fde.lsda(),
                cie.personality(),
                cie.is_signal_trampoline(),
                cie.return_address_register().0
            );
            // Meaning of the rows = which rules hold at which address: rows with an empty range and
            // splits between rows with identical rules are encoding artefacts (an advance followed by
            // nothing that changes a rule) and are normalised away.
            let mut rows: Vec<(u64, u64, String)> = Vec::new();
            let mut err: Option<String> = None;
            match fde.rows(section, bases, &mut ctx) {
                Ok(mut t) => loop {
                    match t.next_row() {
                        Ok(Some(row)) => {
                            let ex = |u: &gimli::read::UnwindExpression<usize>| -> String {
                                match u.get(section) {
                                    Ok(e) => {
                                        let mut ops = e.operations(cie.encoding());
                                        let mut t = String::new();
                                        while let Ok(Some(op)) = ops.next() {
                                            t.push_str(&format!("{op:?};").replace(' ', ""));
                                        }
                                        t
                                    }
                                    Err(e) => format!("!E{e:?}"),
                                }
                            };
                            let mut regs: Vec<String> = row
                                .registers()
                                .map(|(r, rule)| match rule {
                                    gimli::read::RegisterRule::Expression(u) => format!("{}=expr[{}]", r.0, ex(u)),
                                    gimli::read::RegisterRule::ValExpression(u) => format!("{}=valexpr[{}]", r.0, ex(u)),
                                    other => format!("{}={:?}", r.0, other),
                                })
                                .collect();
                            regs.sort();
                            let cfa = match row.cfa() {
                                gimli::read::CfaRule::Expression(u) => format!("cfaexpr[{}]", ex(u)),
                                other => format!("{other:?}"),
                            };
                            let text = format!("{} {} a{}", cfa, regs.join(","), row.saved_args_size());
                            let (b, e) = (row.start_address(), row.end_address());
                            if b == e {
                                continue;
                            }
                            match rows.last_mut() {
                                Some(last) if last.2 == text && last.1 == b => last.1 = e,
                                _ => rows.push((b, e, text)),
                            }
                        }
                        Ok(None) => break,
                        Err(e) => {
                            err = Some(format!(" !E{e:?}"));
                            break;
                        }
                    }
                },
                Err(e) => err = Some(format!(" !initE{e:?}")),
            }
            for (b, e, t) in rows {
                write!(s, " [{b:x}-{e:x} {t}]").unwrap();
            }
            if let Some(e) = err {
                s.push_str(&e);
            }
            out.push(s);
        }
    }
    out.sort();
    Ok(out)
}
