//! PRNG, hex, digest, minimal JSON.
use std::fmt::Write;

/// SplitMix64: every random choice of a run derives from one state (seed, case index).
#[derive(Clone)]
pub struct Rng(pub u64);
impl Rng {
    pub fn new(seed: u64) -> Self {
        Rng(seed.wrapping_mul(0x9e3779b97f4a7c15) ^ 0xd1b54a32d192ed03)
    }
    pub fn next(&mut self) -> u64 {
        self.0 = self.0.wrapping_add(0x9e3779b97f4a7c15);
        let mut z = self.0;
        z = (z ^ (z >> 30)).wrapping_mul(0xbf58476d1ce4e5b9);
        z = (z ^ (z >> 27)).wrapping_mul(0x94d049bb133111eb);
        z ^ (z >> 31)
    }
    pub fn below(&mut self, n: u64) -> u64 {
        if n == 0 { 0 } else { self.next() % n }
    }
    pub fn range(&mut self, lo: u64, hi: u64) -> u64 {
        lo + self.below(hi - lo + 1)
    }
    pub fn chance(&mut self, num: u64, den: u64) -> bool {
        self.below(den) < num
    }
    pub fn pick<'a, T>(&mut self, xs: &'a [T]) -> &'a T {
        &xs[self.below(xs.len() as u64) as usize]
    }
    pub fn bytes(&mut self, n: usize) -> Vec<u8> {
        (0..n).map(|_| self.next() as u8).collect()
    }
    pub fn bytes_below(&mut self, n: u64) -> Vec<u8> {
        let k = self.below(n) as usize;
        self.bytes(k)
    }
    /// boundary-biased 64-bit value (DESIGN §4.1 pool)
    pub fn boundary_u64(&mut self) -> u64 {
        const POOL: &[u64] = &[
            0, 1, 2, 0x3f, 0x40, 0x7f, 0x80, 0xff, 0x100, 0x3fff, 0x4000, 0xffff, 0x10000,
            0x7fff_ffff, 0x8000_0000, 0xffff_ffff, 0x1_0000_0000,
            (1 << 61) - 1, 1 << 61, (1 << 63) - 1, 1 << 63, u64::MAX - 1, u64::MAX,
            0xffff_fff0, 0xffff_ffef, 0xfe, 0xfffe, 0xffff_fffe, 0x1f_ffff, 0x20_0000,
            (1 << 56) - 1, 1 << 56, (1 << 62) - 1, 1 << 62,
        ];
        match self.below(10) {
            0..=5 => *self.pick(POOL),
            6 => self.pick(POOL).wrapping_add(self.below(3)).wrapping_sub(1),
            7 => self.next() >> self.below(64),
            8 => 1u64 << self.below(64),
            _ => self.next(),
        }
    }
    pub fn boundary_i64(&mut self) -> i64 {
        let v = self.boundary_u64();
        match self.below(4) {
            0 => v as i64,
            1 => (v as i64).wrapping_neg(),
            2 => (v >> 1) as i64,
            _ => ((v >> 1) as i64).wrapping_neg().wrapping_sub(self.below(2) as i64),
        }
    }
}

pub fn hex(bs: &[u8]) -> String {
    if bs.is_empty() {
        return "-".into();
    }
    let mut s = String::with_capacity(bs.len() * 2);
    for b in bs {
        write!(s, "{:02x}", b).unwrap();
    }
    s
}

pub fn unhex(s: &str) -> Option<Vec<u8>> {
    if s == "-" {
        return Some(vec![]);
    }
    if s.len() % 2 != 0 {
        return None;
    }
    let b = s.as_bytes();
    let mut v = Vec::with_capacity(b.len() / 2);
    for i in (0..b.len()).step_by(2) {
        let h = (b[i] as char).to_digit(16)?;
        let l = (b[i + 1] as char).to_digit(16)?;
        v.push((h * 16 + l) as u8);
    }
    Some(v)
}

/// rolling digest, identical to `Gimli.Drv.digestStep`
pub const DIGEST_INIT: u64 = 0xcbf29ce484222325;
#[inline]
pub fn digest_step(h: u64, x: u64) -> u64 {
    (h ^ x).wrapping_mul(1099511628211).wrapping_add(0x9e3779b97f4a7c15)
}
pub fn str_hash(s: &str) -> u64 {
    s.chars().fold(DIGEST_INIT, |h, c| digest_step(h, c as u64))
}

/// name of a gimli read error as the Model spells it (variant name, payload dropped)
pub fn rerr(e: &gimli::read::Error) -> String {
    let s = format!("{:?}", e);
    let end = s.find(|c: char| c == '(' || c == ' ' || c == '{').unwrap_or(s.len());
    s[..end].to_string()
}
pub fn werr(e: &gimli::write::Error) -> String {
    let s = format!("{:?}", e);
    let end = s.find(|c: char| c == '(' || c == ' ' || c == '{').unwrap_or(s.len());
    format!("W.{}", &s[..end])
}

// ---------- minimal JSON ----------
#[derive(Clone, Debug)]
pub enum J {
    Null,
    B(bool),
    I(i64),
    F(f64),
    S(String),
    A(Vec<J>),
    O(Vec<(String, J)>),
}
impl J {
    pub fn s(x: &str) -> J {
        J::S(x.to_string())
    }
    pub fn obj(kv: Vec<(&str, J)>) -> J {
        J::O(kv.into_iter().map(|(k, v)| (k.to_string(), v)).collect())
    }
    pub fn write(&self, out: &mut String) {
        match self {
            J::Null => out.push_str("null"),
            J::B(b) => out.push_str(if *b { "true" } else { "false" }),
            J::I(i) => write!(out, "{}", i).unwrap(),
            J::F(f) => write!(out, "{:.3}", f).unwrap(),
            J::S(s) => {
                out.push('"');
                for c in s.chars() {
                    match c {
                        '"' => out.push_str("\\\""),
                        '\\' => out.push_str("\\\\"),
                        '\n' => out.push_str("\\n"),
                        '\r' => out.push_str("\\r"),
                        '\t' => out.push_str("\\t"),
                        c if (c as u32) < 0x20 => write!(out, "\\u{:04x}", c as u32).unwrap(),
                        c => out.push(c),
                    }
                }
                out.push('"');
            }
            J::A(a) => {
                out.push('[');
                for (i, x) in a.iter().enumerate() {
                    if i > 0 {
                        out.push(',');
                    }
                    x.write(out);
                }
                out.push(']');
            }
            J::O(o) => {
                out.push('{');
                for (i, (k, v)) in o.iter().enumerate() {
                    if i > 0 {
                        out.push(',');
                    }
                    J::S(k.clone()).write(out);
                    out.push(':');
                    v.write(out);
                }
                out.push('}');
            }
        }
    }
    pub fn to_string(&self) -> String {
        let mut s = String::new();
        self.write(&mut s);
        s
    }
}
