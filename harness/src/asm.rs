//! Tiny independent DWARF assemblers (little-endian unless stated) used to build inputs that
//! gimli's own writer cannot or would not produce.
#![allow(dead_code)]

pub fn uleb(mut v: u64) -> Vec<u8> {
    let mut out = Vec::new();
    loop {
        let b = (v & 0x7f) as u8;
        v >>= 7;
        if v != 0 {
            out.push(b | 0x80);
        } else {
            out.push(b);
            return out;
        }
    }
}

pub fn sleb(mut v: i64) -> Vec<u8> {
    let mut out = Vec::new();
    loop {
        let b = (v & 0x7f) as u8;
        v >>= 7;
        let done = (v == 0 && b & 0x40 == 0) || (v == -1 && b & 0x40 != 0);
        if done {
            out.push(b);
            return out;
        }
        out.push(b | 0x80);
    }
}

/// One `.debug_frame` CIE (32-bit DWARF, version 1, no augmentation), padded with DW_CFA_nop to a
/// multiple of `address_size`.
pub fn debug_frame_cie(address_size: u8, code_align: u64, data_align: i64, ra: u8, insns: &[u8]) -> Vec<u8> {
    let mut body = Vec::new();
    body.extend_from_slice(&0xffff_ffffu32.to_le_bytes());
    body.push(1);
    body.push(0);
    body.extend(uleb(code_align));
    body.extend(sleb(data_align));
    body.push(ra);
    body.extend_from_slice(insns);
    while (body.len() + 4) % address_size as usize != 0 {
        body.push(0);
    }
    let mut out = (body.len() as u32).to_le_bytes().to_vec();
    out.extend(body);
    out
}

/// One `.debug_frame` FDE referring to the CIE at section offset `cie_offset`.
pub fn debug_frame_fde(address_size: u8, cie_offset: u32, start: u64, len: u64, insns: &[u8]) -> Vec<u8> {
    let mut body = Vec::new();
    body.extend_from_slice(&cie_offset.to_le_bytes());
    match address_size {
        4 => {
            body.extend_from_slice(&(start as u32).to_le_bytes());
            body.extend_from_slice(&(len as u32).to_le_bytes());
        }
        _ => {
            body.extend_from_slice(&start.to_le_bytes());
            body.extend_from_slice(&len.to_le_bytes());
        }
    }
    body.extend_from_slice(insns);
    while (body.len() + 4) % address_size as usize != 0 {
        body.push(0);
    }
    let mut out = (body.len() as u32).to_le_bytes().to_vec();
    out.extend(body);
    out
}

// DW_CFA opcodes
pub const CFA_ADVANCE_LOC: u8 = 0x40;
pub const CFA_OFFSET: u8 = 0x80;
pub const CFA_RESTORE: u8 = 0xc0;
pub const CFA_NOP: u8 = 0x00;
pub const CFA_SET_LOC: u8 = 0x01;
pub const CFA_ADVANCE_LOC1: u8 = 0x02;
pub const CFA_UNDEFINED: u8 = 0x07;
pub const CFA_SAME_VALUE: u8 = 0x08;
pub const CFA_REGISTER: u8 = 0x09;
pub const CFA_REMEMBER_STATE: u8 = 0x0a;
pub const CFA_RESTORE_STATE: u8 = 0x0b;
pub const CFA_DEF_CFA: u8 = 0x0c;
pub const CFA_DEF_CFA_REGISTER: u8 = 0x0d;
pub const CFA_DEF_CFA_OFFSET: u8 = 0x0e;
pub const CFA_DEF_CFA_EXPRESSION: u8 = 0x0f;
pub const CFA_GNU_ARGS_SIZE: u8 = 0x2e;
