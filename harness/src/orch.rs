//! Orchestrator: generated case lines -> Model driver and implementation worker(s) -> diff.
use crate::proc::{LineServer, Reply};
use crate::prop::{self, Ctx, Tier};
use crate::util::{Rng, J};
use std::collections::{BTreeMap, HashSet};
use std::time::{Duration, Instant};

pub struct Opts {
    pub prop: String,
    pub tier: Tier,
    pub seed: u64,
    pub model: String,
    /// (mode, path-to-gvh-binary built in that profile)
    pub workers: Vec<(String, String)>,
    pub out: String,
    pub replay: Option<String>,
    pub corpus: Option<String>,
}

#[derive(Clone)]
pub struct Failure {
    pub kind: &'static str, // "property" | "correspondence" | "crash"
    pub mode: String,
    pub case: String,
    pub model: String,
    pub imp: String,
    pub signature: String,
    pub shrunk: Option<String>,
    pub witness: Option<String>,
}

const ORACLE: &str = " #oracle:";

pub fn split_oracle(s: &str) -> (&str, Option<&str>) {
    match s.find(ORACLE) {
        Some(i) => (&s[..i], Some(&s[i + ORACLE.len()..])),
        None => (s, None),
    }
}

fn reply_text(r: &Reply) -> String {
    match r {
        Reply::Line(l) => l.clone(),
        Reply::Died(st) => format!("abort {st}"),
        Reply::Hang => "hang".into(),
    }
}

/// what is compared: the whole line, except that panics/aborts/hangs compare by class only
pub fn canon(s: &str) -> String {
    let (s, _) = split_oracle(s);
    let first = s.split(' ').next().unwrap_or("");
    match first {
        "panic" | "abort" | "hang" | "diverge" | "normal" => first.to_string(),
        _ => s.to_string(),
    }
}

pub fn class(s: &str) -> String {
    let (s, _) = split_oracle(s);
    let mut it = s.split(' ');
    let first = it.next().unwrap_or("");
    if first == "err" {
        format!("err {}", it.next().unwrap_or(""))
    } else {
        first.to_string()
    }
}

fn strip_lineno(s: &str) -> String {
    // "panic /repo/src/read/op.rs:123: attempt to multiply with overflow" -> file + message
    let mut out = String::new();
    let mut chars = s.chars().peekable();
    while let Some(c) = chars.next() {
        if c == ':' && chars.peek().map_or(false, |d| d.is_ascii_digit()) {
            while chars.peek().map_or(false, |d| d.is_ascii_digit()) {
                chars.next();
            }
        } else {
            out.push(c);
        }
    }
    out
}

fn nontrivial(resp: &str) -> bool {
    let c = class(resp);
    if c == "normal" {
        // `normal i<items> e<errors> c<calls>`: something was actually parsed or rejected
        return resp.split(' ').skip(1).take(2).any(|t| t.len() > 1 && &t[1..] != "0");
    }
    c == "ok" || c == "digest" || (c.starts_with("err ") && c != "err UnexpectedEof")
}

struct Servers {
    model: LineServer,
    workers: Vec<(String, LineServer)>,
    t_case: Duration,
}

impl Servers {
    fn ask_model(&mut self, line: &str) -> String {
        reply_text(&self.model.ask(line, Duration::from_secs(600)))
    }
    fn ask_worker(&mut self, wi: usize, line: &str) -> String {
        let t = self.t_case;
        reply_text(&self.workers[wi].1.ask(line, t))
    }
}

fn mode_line(case: &str, mode: &str) -> String {
    case.replace("@MODE@", mode)
}

fn judge(case: &str, mode: &str, model: &str, imp: &str) -> Option<Failure> {
    let op = case.split(' ').next().unwrap_or("").to_string();
    let (_, oracle) = split_oracle(imp);
    if let Some(why) = oracle {
        return Some(Failure {
            kind: "property",
            mode: mode.into(),
            case: case.into(),
            model: model.into(),
            imp: imp.into(),
            signature: format!("prop:{op}:{}", why.split(' ').next().unwrap_or("")),
            shrunk: None,
            witness: None,
        });
    }
    if canon(model) == canon(imp) {
        return None;
    }
    // `ok *` from the Model matches any `ok …` reply of the implementation
    if model == "ok *" && (split_oracle(imp).0 == "ok" || split_oracle(imp).0.starts_with("ok ")) {
        return None;
    }
    let ic = class(imp);
    let crash = matches!(ic.as_str(), "panic" | "abort" | "hang");
    let signature = if crash {
        // the second token names the entry point for some operations (`c01 line …`); operands
        // (lists, numbers, hex) are not part of the class, nor are the numbers of a panic message
        let entry = case.split(' ').nth(1).unwrap_or("");
        let ident = entry.len() <= 24
            && entry.bytes().next().map_or(false, |b| b.is_ascii_alphabetic())
            && entry.bytes().all(|b| b.is_ascii_alphanumeric() || b == b'-' || b == b'_')
            && !is_hex(entry);
        let entry = if ident { entry } else { "-" };
        let msg: String = {
            let m = strip_lineno(split_oracle(imp).0);
            let mut out = String::new();
            let mut in_num = false;
            for c in m.chars() {
                if c.is_ascii_digit() {
                    if !in_num {
                        out.push('#');
                    }
                    in_num = true;
                } else {
                    in_num = false;
                    out.push(c);
                }
            }
            out
        };
        format!("crash:{op}:{entry}:{msg}")
    } else {
        let two: Vec<&str> = split_oracle(imp).0.split(' ').take(2).collect();
        format!("corr:{op}:{}/{}", class(model), if ic.starts_with("err ") || ic == "ok" { ic.clone() } else { two.join(" ") })
    };
    Some(Failure {
        kind: if crash { "crash" } else { "correspondence" },
        mode: mode.into(),
        case: case.into(),
        model: model.into(),
        imp: imp.into(),
        signature,
        shrunk: None,
        witness: None,
    })
}

fn is_hex(t: &str) -> bool {
    t.len() >= 2 && t.len() % 2 == 0 && t.bytes().all(|b| b.is_ascii_hexdigit()) && t.bytes().any(|b| !b.is_ascii_digit() || true)
}

/// generic neighbourhood of a case line: boundary substitution of numeric tokens, byte edits
/// and truncations of hex tokens
fn neighbours(case: &str, rng: &mut Rng, n: usize) -> Vec<String> {
    let toks: Vec<&str> = case.split(' ').collect();
    let mut out = Vec::new();
    if toks.len() < 2 {
        return out;
    }
    for _ in 0..n {
        let mut t: Vec<String> = toks.iter().map(|s| s.to_string()).collect();
        let i = 1 + rng.below((t.len() - 1) as u64) as usize;
        let tok = t[i].clone();
        if let Ok(v) = tok.parse::<i128>() {
            let nv: i128 = match rng.below(5) {
                0 => v + 1,
                1 => v - 1,
                2 => rng.boundary_u64() as i128,
                3 => rng.boundary_i64() as i128,
                _ => v / 2,
            };
            t[i] = nv.to_string();
        } else if is_hex(&tok) && tok.len() > 2 {
            let mut b = crate::util::unhex(&tok).unwrap_or_default();
            match rng.below(4) {
                0 => {
                    let k = rng.below(b.len() as u64) as usize;
                    b[k] = *rng.pick(&[0u8, 1, 0x7f, 0x80, 0xff, 0xfe]);
                }
                1 => {
                    let k = rng.below(b.len() as u64) as usize;
                    b.truncate(k);
                }
                2 => {
                    let k = rng.below(b.len() as u64) as usize;
                    b[k] = b[k].wrapping_add(1);
                }
                _ => {
                    let k = rng.below(b.len() as u64) as usize;
                    b.remove(k);
                }
            }
            t[i] = crate::util::hex(&b);
        } else {
            continue;
        }
        out.push(t.join(" "));
    }
    out
}

/// shrink a failing case while the failure keeps its signature
fn shrink(sv: &mut Servers, wi: usize, f: &Failure) -> Option<String> {
    let mode = sv.workers[wi].0.clone();
    let mut best = f.case.clone();
    let mut improved = true;
    // every candidate that still hangs costs a full watchdog period: a hang is shrunk with a small budget
    let mut budget = if f.signature.ends_with(":hang") { 24 } else { 200 };
    while improved && budget > 0 {
        improved = false;
        let toks: Vec<String> = best.split(' ').map(|s| s.to_string()).collect();
        'outer: for i in 1..toks.len() {
            let tok = &toks[i];
            let mut cands: Vec<String> = Vec::new();
            if is_hex(tok) && tok.len() > 2 && tok.parse::<u128>().is_err() || (is_hex(tok) && tok.len() > 20) {
                let b = crate::util::unhex(tok).unwrap_or_default();
                let n = b.len();
                if n > 1 {
                    cands.push(crate::util::hex(&b[..n / 2]));
                    cands.push(crate::util::hex(&b[..n - 1]));
                    cands.push(crate::util::hex(&b[1..]));
                }
            } else if let Ok(v) = tok.parse::<i128>() {
                if v != 0 {
                    cands.push((v / 2).to_string());
                    cands.push("0".into());
                }
            }
            for c in cands {
                budget -= 1;
                if budget <= 0 {
                    break 'outer;
                }
                let mut t = toks.clone();
                t[i] = c;
                let cand = t.join(" ");
                let l = mode_line(&cand, &mode);
                let m = sv.ask_model(&l);
                let r = sv.ask_worker(wi, &l);
                if let Some(g) = judge(&cand, &mode, &m, &r) {
                    if g.signature == f.signature {
                        best = cand;
                        improved = true;
                        continue 'outer;
                    }
                }
            }
        }
    }
    if best != f.case { Some(best) } else { None }
}

/// look around a correspondence/crash failure for an input on which the property's own oracle fails
fn search_witness(sv: &mut Servers, wi: usize, f: &Failure, rng: &mut Rng) -> Option<String> {
    let mode = sv.workers[wi].0.clone();
    let base = f.shrunk.clone().unwrap_or_else(|| f.case.clone());
    let mut pool = vec![base.clone()];
    pool.extend(neighbours(&base, rng, if f.signature.ends_with(":hang") { 24 } else { 300 }));
    for cand in pool {
        let l = mode_line(&cand, &mode);
        let r = sv.ask_worker(wi, &l);
        if split_oracle(&r).1.is_some() {
            return Some(format!("{l} => {r}"));
        }
    }
    None
}

pub fn run(o: Opts) -> i32 {
    let t0 = Instant::now();
    let props = prop::all();
    let Some(p) = props.iter().find(|p| p.id == o.prop) else {
        eprintln!("unknown property {}", o.prop);
        return 2;
    };
    let ctx = Ctx { tier: o.tier, seed: o.seed };
    // case stream: corpus of minimised past failures first, then generated
    let mut cases: Vec<String> = Vec::new();
    let mut corpus_n = 0usize;
    if let Some(rp) = &o.replay {
        for l in std::fs::read_to_string(rp).unwrap_or_default().lines() {
            if let Some(c) = l.strip_prefix("case: ") {
                cases.push(c.to_string());
            }
        }
    } else {
        if let Some(c) = &o.corpus {
            if let Ok(s) = std::fs::read_to_string(c) {
                for l in s.lines() {
                    let l = l.trim();
                    if !l.is_empty() && !l.starts_with('#') {
                        cases.push(l.to_string());
                        corpus_n += 1;
                    }
                }
            }
        }
        (p.gen)(&ctx, &mut |s| cases.push(s));
    }
    let t_case = Duration::from_secs(if o.tier == Tier::Quick { 20 } else { 120 });
    let stack = std::env::var("GVH_STACK").unwrap_or_else(|_| (1usize << 20).to_string());
    let mut sv = Servers {
        model: LineServer::new("model", vec![o.model.clone()], vec![]),
        workers: o
            .workers
            .iter()
            .filter(|(m, _)| p.modes.contains(&m.as_str()))
            .map(|(m, path)| {
                (
                    m.clone(),
                    LineServer::new(m, vec![path.clone(), "worker".into()], vec![("GVH_STACK".into(), stack.clone())]),
                )
            })
            .collect(),
        t_case,
    };
    if sv.workers.is_empty() {
        eprintln!("no worker for modes {:?}", p.modes);
        return 2;
    }
    let mut failures: Vec<(usize, Failure)> = Vec::new();
    let mut hist: BTreeMap<String, BTreeMap<String, u64>> = BTreeMap::new();
    let mut distinct: HashSet<String> = HashSet::new();
    let mut evaluations = 0u64;
    let mut breaker_skipped = 0u64;
    let mut samples: Vec<J> = Vec::new();
    let mut model_memo: std::collections::HashMap<String, String> = std::collections::HashMap::new();
    for wi in 0..sv.workers.len() {
        let mode = sv.workers[wi].0.clone();
        let lines: Vec<String> = cases.iter().map(|c| mode_line(c, &mode)).collect();
        // model (memoised across modes for mode-independent lines)
        let need: Vec<String> = {
            let mut seen = HashSet::new();
            lines.iter().filter(|l| !model_memo.contains_key(*l) && seen.insert((*l).clone())).cloned().collect()
        };
        let mreplies = sv.model.batch(&need, Duration::from_secs(1200));
        for (l, r) in need.iter().zip(mreplies.iter()) {
            model_memo.insert(l.clone(), reply_text(r));
        }
        let wreplies = sv.workers[wi].1.batch(&lines, t_case);
        breaker_skipped += (lines.len() - wreplies.len()) as u64;
        for (i, (l, r)) in lines.iter().zip(wreplies.iter()).enumerate() {
            let imp = reply_text(r);
            let model = model_memo.get(l).cloned().unwrap_or_default();
            evaluations += 1;
            let op = l.split(' ').next().unwrap_or("").to_string();
            *hist.entry(op).or_default().entry(class(&imp)).or_default() += 1;
            if nontrivial(&imp) {
                distinct.insert(l.clone());
            }
            if samples.len() < 12 && (i % (1 + lines.len() / 12) == 0) {
                samples.push(J::obj(vec![("request", J::s(l)), ("model", J::s(&model)), ("impl", J::s(&imp)), ("mode", J::s(&mode))]));
            }
            if let Some(f) = judge(&cases[i], &mode, &model, &imp) {
                failures.push((wi, f));
            }
        }
    }
    // post-process failures: dedup by signature (keep first 3 of each), shrink, search
    let mut by_sig: BTreeMap<String, Vec<(usize, Failure)>> = BTreeMap::new();
    for (wi, f) in failures {
        by_sig.entry(f.signature.clone()).or_default().push((wi, f));
    }
    let mut rng = Rng::new(o.seed ^ 0x5eed);
    let mut out_fail: Vec<J> = Vec::new();
    let total_fail: usize = by_sig.values().map(|v| v.len()).sum();
    for (sig, v) in by_sig.iter_mut() {
        let count = v.len();
        let (wi, mut f) = v[0].clone();
        if o.replay.is_none() {
            f.shrunk = shrink(&mut sv, wi, &f);
            if f.kind != "property" {
                f.witness = search_witness(&mut sv, wi, &f, &mut rng);
            }
        }
        out_fail.push(J::obj(vec![
            ("kind", J::s(f.kind)),
            ("signature", J::s(sig)),
            ("count", J::I(count as i64)),
            ("mode", J::s(&f.mode)),
            ("case", J::s(&mode_line(&f.case, &f.mode))),
            ("shrunk", f.shrunk.as_ref().map(|s| J::s(&mode_line(s, &f.mode))).unwrap_or(J::Null)),
            ("model", J::s(&f.model)),
            ("impl", J::s(&f.imp)),
            ("property_witness", f.witness.as_ref().map(|s| J::s(s)).unwrap_or(J::Null)),
        ]));
    }
    let hist_j = J::O(
        hist.iter()
            .map(|(op, m)| (op.clone(), J::O(m.iter().map(|(k, v)| (k.clone(), J::I(*v as i64))).collect())))
            .collect(),
    );
    let restarts: u64 = sv.workers.iter().map(|w| w.1.restarts).sum();
    let slow: u64 = sv.workers.iter().map(|w| w.1.slow).sum();
    let j = J::obj(vec![
        ("property_id", J::s(&o.prop)),
        ("evaluations", J::I(evaluations as i64)),
        ("distinct_nontrivial", J::I(distinct.len() as i64)),
        ("rule", J::s("case lines come from the property's generator (structured-valid, boundary and malformed streams, all derived from VERIF_SEED) after the corpus of past failures; each line is answered by the Lean Model driver and by the real crate in every listed build mode. A case counts as distinct+non-trivial when its request line is new and the implementation's reply is `ok …`, the digest of an exhaustively enumerated block, or a named error other than UnexpectedEof")),
        ("cases", J::I(cases.len() as i64)),
        ("corpus_cases", J::I(corpus_n as i64)),
        ("modes", J::A(sv.workers.iter().map(|w| J::s(&w.0)).collect())),
        ("traces_validated_against_impl", J::I(evaluations as i64)),
        ("histogram", hist_j),
        ("worker_restarts", J::I(restarts as i64)),
        ("slow_replies_confirmed_on_retry", J::I(slow as i64)),
        ("unevaluated_after_circuit_breaker", J::I(breaker_skipped as i64)),
        ("samples", J::A(samples)),
        ("failures_total", J::I(total_fail as i64)),
        ("failures", J::A(out_fail)),
        ("wall_s", J::F(t0.elapsed().as_secs_f64())),
    ]);
    std::fs::write(&o.out, j.to_string()).expect("write out");
    if total_fail == 0 { 0 } else { 1 }
}
